"""C11 - placeholders are substituted everywhere, once, and nothing else changes.

R11.1 the traversal reaches every list element and mapping value, and applies the function only to allowed types;
R11.2 already substituted strings are returned untouched before any substitution (idempotence guard);
R11.3 an undefined placeholder is restored verbatim in both lookup modes;  R11.4 the persistence repr is encoded once;
R11.5 substitution happens after the context and before object instantiation; nested context `uses` get the variables;
R11.6 the placeholder pattern cannot span a closing brace.
"""
from __future__ import annotations

import ast
import re._parser as sre_parse

from ..model import src
from ..report import Report, key_of
from ..terms import assume, dag_nodes, has_opaque, normalise, pretty
from ..types import Ctx
from .c02 import check_reprstr_levels
from .common import TRUSTED_BASE, bound_args, cfg_nodes_for, expanded_facts, inl, loop_runs_to_end, loop_unconditional, resolve_expr, subst_single_assign, where
from .keyterm import branches, all_conj


def check_wrap_condition(A, R, rid):
    """_apply: whether a string becomes a ReprStr (rendered by its original text) depends on the string alone - "a placeholder
    matched" - never on what the placeholders were replaced with."""
    from ..terms import cond_leaves, contains, dag_nodes, pretty
    f = A.func('search_and_replace_placeholders')
    fap = f.nested.get('_apply') if f is not None else None
    if fap is None:
        R.undecided(rid, '_apply', 'nested _apply not found', where=where(f) if f is not None else '-')
        return
    t = A.sym.func_term(fap, None)
    strp = ('p', fap.params[0])
    conds = []

    def walk(x, path):
        if not isinstance(x, tuple):
            return
        if x[0] == 'cond':
            walk(x[2], path + [(x[1], True)])
            walk(x[3], path + [(x[1], False)])
        elif x[0] == 'new' and x[1] == 'ReprStr':
            conds.append(path)
    walk(t, [])
    if not conds:
        R.undecided(rid, '_apply', f'no path returning a ReprStr recognised in {pretty(t)[:120]}', where=where(fap))
        return

    def text_dependent(c):
        """the condition looks at the substituted text (result of re.sub / element 0 of re.subn)"""
        for x in dag_nodes(c):
            if x[0] == 'call' and str(x[1]).split('.')[-1] == 'sub':
                return True
            if x[0] == 'index' and x[1][0] == 'call' and str(x[1][1]).split('.')[-1] == 'subn' and x[2] == ('lit', 0):
                return True
        return False
    bad = sorted({pretty(c)[:100] for path in conds for c, pol in path if text_dependent(c)})
    R.check(not bad, rid, '_apply: when a string is wrapped', key_of('wrap-condition', bad), 'wrapped whenever a placeholder matched (count of matches), whatever it was replaced with',
            f'a string is wrapped into ReprStr only when `{bad[0] if bad else ""}`, i.e. depending on the substituted text: a string whose placeholders stay unresolved remains a plain str and is rendered '
            'differently (quoted raw instead of repr of the original), so the same config text gets different storage keys with and without the variable defined', where=where(fap))


def run(A, R: Report, thorough: bool):
    R.explanation = ('Structural rules on the recursive traversal (both container branches iterate everything and recurse), CFG dominance of the idempotence guard, the symbolic term of the '
                     'replacement callback, an encoding-level (units) analysis of ReprStr, CFG ordering in Config._prepare / Context.prepare_context, and the parsed AST of the placeholder '
                     'regex. Not decided: regex behaviour on every string (nested braces).')
    R.trusted = TRUSTED_BASE + ['re._parser.parse (CPython regex parser)']
    fsa = A.func('search_and_apply')
    ftr = fsa.nested.get('_traverse')
    fiv = fsa.nested.get('_is_valid')
    R.require(ftr is not None and fiv is not None, 'anchor: search_and_apply._traverse / _is_valid missing')

    # ---- R11.1
    R.rule('R11.1', 'the traversal iterates every element of sequences and every value of mappings, recurses first, and applies the function only to values of an allowed type', floor=3)
    tparam = ftr.params[0]
    fce = fsa.params[1]
    cfgt = A.cfg(ftr, predicates=False)   # the rule talks about the calls of _traverse / _is_valid themselves
    allnodes = list(cfgt.nodes)
    triples = A.nodes_with_sites(ftr)

    def rs(e, owner, sites):
        return src(resolve_expr(A, ftr, e, owner, sites))

    def positive_kind(a_):
        """the branch fact says: the traversed object is a sequence / a mapping"""
        t_ = src(a_)
        if tparam not in t_:
            return None
        if isinstance(a_, ast.Compare) and isinstance(a_.ops[0], (ast.In, ast.Is, ast.Eq)) and src(a_.left) == f'type({tparam})' and 'list' in t_:
            return 'sequence'
        if isinstance(a_, ast.Call) and src(a_.func) == 'isinstance' and len(a_.args) == 2 and src(a_.args[0]) == tparam:
            names = {x.id for x in ast.walk(a_.args[1]) if isinstance(x, ast.Name)}
            if 'dict' in names or 'Mapping' in names or 'MutableMapping' in names:
                return 'mapping'
            if 'list' in names:
                return 'sequence'
        if isinstance(a_, ast.Compare) and isinstance(a_.ops[0], (ast.Is, ast.Eq)) and src(a_.left) == f'type({tparam})' and src(a_.comparators[0]) == 'dict':
            return 'mapping'
        return None

    expected = {'sequence': f'enumerate({tparam})', 'mapping': f'{tparam}.items()'}
    found = {'sequence': False, 'mapping': False}
    for lp, owner, sites in [(n, o, s_) for n, o, s_ in triples if isinstance(n, ast.For)]:
        if not (isinstance(lp.target, ast.Tuple) and len(lp.target.elts) == 2 and all(isinstance(e_, ast.Name) for e_ in lp.target.elts)):
            continue
        idx, val = lp.target.elts[0].id, lp.target.elts[1].id
        # what the loop iterates, per definition of its iterable (a local may be bound in several branches)
        sources = []
        if isinstance(lp.iter, ast.Name) and lp.iter.id not in owner.params and len(A.sym._local_defs(owner).get(lp.iter.id, [])) > 1:
            for n in A.typer.own_nodes(owner):
                if isinstance(n, ast.Assign) and len(n.targets) == 1 and src(n.targets[0]) == lp.iter.id:
                    sources += [(src(n.value), cn.id) for cn in cfg_nodes_for(cfgt, n)]
        else:
            it = rs(lp.iter, owner, sites)
            sources += [(it, h.id) for h in cfgt.nodes.values() if h.kind == 'for' and h.ast is lp]
        # the loop body as written plus the helpers it calls as statements (their parameters resolved at the call site inside the loop)
        inside = {id(x) for x in ast.walk(lp)}
        body_triples = [(n, o2, s2) for n, o2, s2 in triples if (o2 is owner and s2 == sites and id(n) in inside) or
                        (len(s2) > len(sites) and s2[:len(sites)] == sites and id(s2[len(sites)]) in inside)]
        site_of = {id(o2.node): s2 for _, o2, s2 in body_triples}

        def rcall(c_, o2):
            """(callee name, argument texts in the loop's terms) of a call written in o2 (the traversal itself or an inlined helper)"""
            return src(c_.func), [rs(a_, o2, site_of.get(id(o2.node), sites)) for a_ in c_.args]

        stores = [n for n, o2, s2 in body_triples if isinstance(n, ast.Assign) and isinstance(n.targets[0], ast.Subscript) and rs(n.targets[0].value, o2, s2) == tparam
                  and rs(n.targets[0].slice, o2, s2) == idx and isinstance(n.value, ast.Call) and rcall(n.value, o2) == (fce, [val])]
        recs = [n for n, o2, s2 in body_triples if isinstance(n, ast.Call) and rcall(n, o2) == (ftr.name, [val])]
        if not stores or not recs:
            continue
        rec_always = loop_unconditional(cfgt, lp, recs[0]) and loop_runs_to_end(lp)
        store_ids = {cn.id for s_ in stores for cn in cfg_nodes_for(cfgt, s_)}
        for kind in ('sequence', 'mapping'):
            for it, nid in sources:
                if it != expected[kind]:
                    continue
                kinds = {positive_kind(a_) for a_, pol in expanded_facts(A, ftr, cfgt, nid) if pol} - {None}
                if kind not in kinds:
                    continue
                # the copies of the loop that run under this kind
                heads = [h.id for h in cfgt.nodes.values() if h.kind == 'for' and h.ast is lp and kind in ({positive_kind(a_) for a_, pol in cfgt.facts_at(h.id) if pol} | ({kind} if nid != h.id else set()))]
                ok_all = bool(heads)
                for h in heads:
                    gates = list(store_ids)
                    for n in cfgt.nodes.values():
                        if n.kind != 'edge':
                            continue
                        o2 = getattr(getattr(n, 'owner', None), '_info', None) or ftr
                        t_ = subst_single_assign(A, o2, n.ast) if isinstance(n.ast, ast.Name) else n.ast
                        if isinstance(t_, ast.Call):
                            if rcall(t_, o2) == (ftr.name, [val]) and n.label == 'T':
                                gates.append(n.id)
                            if rcall(t_, o2) == (fiv.name, [val]) and n.label == 'F':
                                gates.append(n.id)
                    starts = cfgt.succ_by_label(h, 'loop')
                    skip = cfgt.find_path(starts, [h], avoid=gates, no_exc_from=allnodes)
                    ok_all = ok_all and skip is None
                def facts_res(sid):
                    out = list(expanded_facts(A, ftr, cfgt, sid))
                    for a_, pol, od in cfgt.facts_owned(sid):
                        o2 = getattr(od, '_info', None)
                        if o2 is not None and o2 is not ftr and isinstance(a_, ast.Name):
                            e_ = subst_single_assign(A, o2, a_)
                            if e_ is not a_ and isinstance(e_, ast.Call):
                                out.append((e_, pol))
                    return out
                valid_guard = all(any(isinstance(a_, ast.Call) and src(a_.func) == fiv.name and pol for a_, pol in facts_res(sid)) and
                                  any(isinstance(a_, ast.Call) and src(a_.func) == ftr.name and not pol for a_, pol in facts_res(sid)) for sid in store_ids)
                if ok_all and rec_always and valid_guard:
                    found[kind] = True
    for kind in ('sequence', 'mapping'):
        R.check(found[kind], 'R11.1', f'search_and_apply._traverse: {kind} branch', key_of(kind, found[kind]), 'every element visited, recursed into, replaced in place when valid',
                f'the {kind} branch does not visit every element / recurse / store the result back: placeholders at some depth or position stay unsubstituted', where=where(ftr))
    # dispatch: `return True` only after a container test succeeded, `return False` only after both failed
    rets_t = [n for n in cfgt.nodes.values() if n.kind == 'stmt' and isinstance(n.ast, ast.Return) and isinstance(n.ast.value, ast.Constant) and n.ast.value.value is True]
    rets_f = [n for n in cfgt.nodes.values() if n.kind == 'stmt' and isinstance(n.ast, ast.Return) and isinstance(n.ast.value, ast.Constant) and n.ast.value.value is False]
    # a `return` of an inlined helper ends the helper, not the traversal
    other = [n for n in cfgt.nodes.values() if n.kind == 'stmt' and isinstance(n.ast, ast.Return) and n not in rets_t and n not in rets_f and getattr(n, 'owner', ftr.node) is ftr.node]
    rets_t = [n for n in rets_t if getattr(n, 'owner', ftr.node) is ftr.node]
    rets_f = [n for n in rets_f if getattr(n, 'owner', ftr.node) is ftr.node]
    pos = {'sequence': [], 'mapping': []}
    neg = {'sequence': [], 'mapping': []}
    for n in cfgt.nodes.values():
        if n.kind == 'edge':
            kd = positive_kind(n.ast)
            if kd:
                (pos if n.label == 'T' else neg)[kd].append(n.id)
    falls_off = cfgt.find_path([cfgt.entry.id], [cfgt.exit.id], avoid=[n.id for n in rets_t + rets_f + other], no_exc_from=allnodes) is not None
    t_ok = bool(rets_t) and cfgt.find_path([cfgt.entry.id], [n.id for n in rets_t], avoid=pos['sequence'] + pos['mapping'], no_exc_from=allnodes) is None
    f_ok = bool(rets_f) and all(cfgt.find_path([cfgt.entry.id], [n.id for n in rets_f], avoid=neg[kd], no_exc_from=allnodes) is None for kd in ('sequence', 'mapping'))
    both = bool(pos['sequence']) and bool(pos['mapping'])
    R.check(both and t_ok and f_ok and not other and not falls_off, 'R11.1', 'search_and_apply._traverse: dispatch',
            key_of('dispatch', both, t_ok, f_ok, len(other), falls_off), 'containers report True (handled), leaves False', 'container / leaf dispatch changed: leaves are skipped or containers replaced wholesale', where=where(ftr))
    vt = A.sym.func_term(fiv, None)
    atps = (('p', 'allowed_types'), ('global', 'allowed_types'))
    # with a type filter given and no type matching, the value is rejected
    rej = assume(vt, lambda c: False if ((c[0] == 'cmp' and c[1] == 'Is' and c[2] in atps and c[3] == ('lit', None)) or (c[0] == 'call' and c[1] == 'any' and 'isinst' in str(c)))
                 else (True if (c[0] == 'cmp' and c[1] == 'IsNot' and c[2] in atps and c[3] == ('lit', None)) else None))
    R.check(rej == ('lit', False) and any(x[0] == 'isinst' for x in dag_nodes(vt)), 'R11.1', 'search_and_apply._is_valid', key_of('is-valid'), 'type filter honoured', 'the allowed-types filter is not applied: non-string data would be passed to the substitution', where=where(fiv))
    fsr = A.func('search_and_replace_placeholders')
    calls = [n for n in A.typer.own_nodes(fsr) if isinstance(n, ast.Call) and src(n.func) == 'search_and_apply']
    R.require(calls, 'anchor: search_and_apply call missing in search_and_replace_placeholders')
    for c in calls:
        at = next((src(kw.value) for kw in c.keywords if kw.arg == 'allowed_types'), src(c.args[2]) if len(c.args) > 2 else None)
        R.check(at in ('(str,)', '[str]', '{str}'), 'R11.1', 'search_and_replace_placeholders: allowed types', key_of('allowed', at), 'strings only', f'substitution is applied to types {at}: non-string data can be changed', where=where(fsr, c))

    # ---- R11.2
    fap = fsr.nested.get('_apply')
    R.require(fap is not None, 'anchor: search_and_replace_placeholders._apply missing')
    R.rule('R11.2', 'every regex substitution in _apply is reached only for strings that are not ReprStr (already substituted)', floor=1)
    cfg = A.cfg(fap)
    subs = []       # (call, pattern expression)
    for n in inl(A, fap):
        if isinstance(n, ast.Call) and src(n.func) in ('re.subn', 're.sub') and n.args:
            subs.append((n, subst_single_assign(A, fap, n.args[0])))
        elif isinstance(n, ast.Call) and isinstance(n.func, ast.Attribute) and n.func.attr in ('sub', 'subn'):
            comp = subst_single_assign(A, fap, n.func.value)
            if isinstance(comp, ast.Name) and comp.id in fap.module.globals:
                comp = fap.module.globals[comp.id]   # a pattern compiled once at module level
            if isinstance(comp, ast.Call) and src(comp.func) == 're.compile' and comp.args:
                subs.append((n, subst_single_assign(A, fap, comp.args[0])))
    R.require(subs, 'anchor: re.sub/re.subn call missing in _apply')
    for c, _pat in subs:
        for cn in cfg_nodes_for(cfg, c):
            facts = [(src(a), pol) for a, pol in expanded_facts(A, fap, cfg, cn.id)]
            ok = any('isinstance' in t and 'ReprStr' in t and not pol for t, pol in facts)
            R.check(ok, 'R11.2', f'_apply: `{src(c)[:40]}`', key_of('idempotence', sorted(facts)), 'guarded by not isinstance(.., ReprStr)',
                    'substitution is applied again to an already substituted string: a second application (re-prepared config, copied data) changes values whose replacement contained braces', witness=[str(facts)], where=where(fap, c))

    # ---- R11.3
    frp = fsr.nested.get('_replace')
    R.require(frp is not None, 'anchor: _replace callback missing')
    R.rule('R11.3', 'for a name that is not defined (mapping key / object attribute) the callback returns `{name}` unchanged', floor=2)
    t = A.sym.func_term(frp, None)
    name_t = None
    for x in dag_nodes(t):
        if x[0] == 'method' and x[2] == 'group' and x[3] == (('lit', 1),):
            name_t = x
    if name_t is None:
        R.undecided('R11.3', '_replace', 'placeholder name (match.group(1)) not recognised', where=where(frp))
        R.undecided('R11.3', '_replace: object mode', 'placeholder name (match.group(1)) not recognised', where=where(frp))
    else:
        match_t = name_t[1]
        repl = {x[1] for x in dag_nodes(t) if x[0] == 'isinst' and x[2] in (('global', 'dict'), ('builtin', 'dict'))}
        verbatim = (('cat', (('lit', '{'), name_t, ('lit', '}'))), ('method', match_t, 'group', (('lit', 0),)), ('method', match_t, 'group', ()), ('index', match_t, ('lit', 0)))
        modes = []
        if len(repl) == 1:
            r_ = next(iter(repl))
            isd = ('isinst', r_, ('global', 'dict'))
            modes = [('mapping', assume(t, lambda c: True if c[0] == 'isinst' and c[1] == r_ else None), r_), ('object', assume(t, lambda c: False if c[0] == 'isinst' and c[1] == r_ else None), r_)]
        else:
            # no dispatch on the kind of global_vars inside the callback: one lookup serves both kinds
            rs_ = {x[3] for x in dag_nodes(t) if x[0] == 'cmp' and x[1] in ('In', 'NotIn') and x[2] == name_t} | {x[2][0] for x in dag_nodes(t) if x[0] == 'call' and x[1] in ('hasattr', 'builtins.hasattr') and len(x[2]) == 2 and x[2][1] == name_t}
            r_ = next(iter(rs_)) if len(rs_) == 1 else None
            modes = [('mapping', t, r_), ('object', t, r_)]
        for mode, mt, r_ in modes:
            construct = f'_replace: {mode} mode'
            if r_ is None:
                R.undecided('R11.3', construct, 'lookup of the placeholder name not recognised', where=where(frp))
                continue
            if mode == 'mapping':
                want_def, want_val = ('cmp', 'In', name_t, r_), ('str', ('index', r_, name_t))
            else:
                want_def, want_val = ('call', 'hasattr', (r_, name_t)), ('str', ('call', 'getattr', (r_, name_t)))
            defined = assume(mt, lambda c: True if c == want_def else None)
            undefined = assume(mt, lambda c: False if c == want_def else None)
            uses_test = want_def in dag_nodes(mt)
            ok = uses_test and defined == normalise(want_val) and undefined in [normalise(v) for v in verbatim]
            if ok:
                R.ok('R11.3', construct, 'defined -> str(value), undefined -> the placeholder verbatim', witness=[pretty(mt)[:200]], where=where(frp))
            elif has_opaque(mt):
                R.undecided('R11.3', construct, 'the callback involves a construct the term engine does not interpret', where=where(frp))
            elif not uses_test and any(x[0] == 'or' and isinstance(x[1], tuple) and len(x[1]) >= 2 and any(v_ == normalise(x[1][-1]) or v_ == x[1][-1] for v_ in [normalise(v) for v in verbatim] + list(verbatim)) for x in dag_nodes(mt)):
                R.violation('R11.3', construct, key_of('falsy-undefined', pretty(mt)[:100]),
                            'whether a placeholder is defined is decided by the truthiness of its value (`<lookup> or <placeholder>`): a name defined as 0, "", False or None is left unsubstituted',
                            witness=[pretty(mt)[:300]], where=where(frp))
            elif not uses_test and any(x[0] == 'cond' and x[1][0] in ('method', 'call', 'index') and (('get' in str(x[1][:3])) or ('getattr' in str(x[1][:2]))) and name_t in dag_nodes(x[1]) and
                                       any(v_ == x[3] or v_ == normalise(x[3]) for v_ in [normalise(v) for v in verbatim] + list(verbatim)) for x in dag_nodes(mt)):
                R.violation('R11.3', construct, key_of('falsy-undefined', pretty(mt)[:100]),
                            'whether a placeholder is defined is decided by the truthiness of the looked-up value (`value if value else <placeholder>`): a name defined as 0, "", False or None is left unsubstituted',
                            witness=[pretty(mt)[:300]], where=where(frp))
            elif mode == 'object' and not uses_test and any(x[0] == 'cmp' and x[1] in ('In', 'NotIn') and x[2] == name_t for x in dag_nodes(mt)):
                R.violation('R11.3', construct, key_of('object-lookup', pretty(mt)[:120]),
                            'for a global_vars object the placeholder name is looked up by membership instead of attribute access: names defined as class attributes, properties or inherited attributes count as undefined and stay unsubstituted',
                            witness=[pretty(mt)[:300]], where=where(frp))
            elif uses_test and undefined not in [normalise(v) for v in verbatim]:
                R.violation('R11.3', construct, key_of('verbatim', pretty(undefined)[:80]), f'an undefined placeholder is replaced by `{pretty(undefined)[:80]}` instead of being left verbatim', where=where(frp))
            elif uses_test and defined != normalise(want_val):
                R.violation('R11.3', construct, key_of('value', pretty(defined)[:80]), f'a defined placeholder is replaced by `{pretty(defined)[:80]}` instead of str(<its value>)', where=where(frp))
            else:
                R.undecided('R11.3', construct, f'lookup idiom not recognised: {pretty(mt)[:160]}', where=where(frp))

    # ---- R11.4
    R.rule('R11.4', 'ReprStr.__new__ applies repr() once to raw text; every other store copies an existing repr; constructor calls pass raw text', floor=3)
    check_reprstr_levels(A, R, 'R11.4')
    ctor = [n for n in A.typer.own_nodes(fap) if isinstance(n, ast.Call) and src(n.func) == 'ReprStr' and len(n.args) >= 2]
    R.require(ctor, 'anchor: ReprStr(...) construction missing in _apply')
    for c in ctor:
        orig = fap.params[0]
        first = subst_single_assign(A, fap, c.args[0])
        ok = src(c.args[1]) == orig and src(c.args[0]) != orig
        R.check(ok, 'R11.4', f'_apply: `{src(c)}`', key_of('repr-source', src(c)), 'value = substituted text, repr = the original placeholder text',
                f'`{src(c)}`: the persistence repr must be the unsubstituted input `{orig}` (and the value the substituted text); otherwise substituted values leak into storage keys', where=where(fap, c))

    # ---- R11.5
    R.rule('R11.5', 'Config._prepare: context, then placeholder substitution, then object instantiation; context `uses` are substituted before they are loaded, and nested loads receive the variables', floor=3)
    cfgc = A.cls('Config')
    fprep = cfgc.methods.get('_prepare')
    cfg = A.cfg(fprep)

    def nodes_calling(name):
        return [n.id for n in cfg.nodes.values() if n.kind == 'stmt' and n.ast is not None and any(isinstance(x, ast.Call) and isinstance(x.func, ast.Attribute) and x.func.attr == name for x in ast.walk(n.ast))]

    ac, gv, po = nodes_calling('apply_context'), nodes_calling('apply_global_vars'), nodes_calling('prepare_objects')
    R.require(ac and gv and po, 'anchor: apply_context / apply_global_vars / prepare_objects calls not all found in Config._prepare')
    bad = cfg.find_path(gv, ac) or cfg.find_path(po, gv) or cfg.find_path(po, ac)
    R.check(bad is None, 'R11.5', 'Config._prepare', key_of('order'), 'apply_context < apply_global_vars < prepare_objects',
            'the stages of Config._prepare are out of order: context values would miss substitution, or objects would be built from unsubstituted arguments', witness=cfg.describe_path(bad) if bad else None, where=where(fprep))
    ctxc = A.cls('Context')
    fpc = ctxc.methods.get('prepare_context')
    cfg = A.cfg(fpc)
    subs_nodes = [n.id for n in cfg.nodes.values() if n.kind == 'stmt' and n.ast is not None and any(isinstance(x, ast.Call) and src(x.func) == 'search_and_replace_placeholders' for x in ast.walk(n.ast))]
    # loads of a `uses` item: recursive prepare_context calls that pass a namespace (the final call that merges the loaded contexts passes
    # the list only) - written in prepare_context itself (loop or comprehension) or in a method of Context it calls
    def _is_load(c_):
        if not (isinstance(c_, ast.Call) and src(c_.func).split('.')[-1] == 'prepare_context' and (len(c_.args) >= 2 or any(kw.arg == 'namespace' for kw in c_.keywords))):
            return False
        # the dispatch over an iterable of contexts given by the caller (elements of the first parameter) is no `uses` load
        first = c_.args[0] if c_.args else None
        if isinstance(first, ast.Name):
            for b_ in A.typer.own_nodes(fpc):
                if isinstance(b_, (ast.comprehension, ast.For)) and any(isinstance(x, ast.Name) and x.id == first.id for x in ast.walk(b_.target)) and fpc.params[0] in {x.id for x in ast.walk(b_.iter) if isinstance(x, ast.Name)}:
                    return False
        return True
    loads = [n for n in A.typer.own_nodes(fpc) if _is_load(n)]
    helper_loads = []
    for n_ in A.typer.own_nodes(fpc):
        if isinstance(n_, ast.Call) and isinstance(n_.func, ast.Attribute) and n_.func.attr in ctxc.methods and n_.func.attr != 'prepare_context':
            tgs = [t_ for t_ in A.typer.call_targets(n_, Ctx(fpc, None)) if t_.kind == 'func']
            h_ = tgs[0].func if len(tgs) == 1 else (ctxc.methods[n_.func.attr] if src(n_.func.value) in ('Context', 'cls', 'self') else None)
            if h_ is None or h_.cls is not ctxc:
                continue
            inner = [c_ for c_ in A.typer.own_nodes(h_) if _is_load(c_)]
            if inner:
                loads.append(n_)
                # the helper forwards the variables only if it is given them: parameter bound at the call site to prepare_context's own
                ba_ = bound_args(n_, h_) or {}
                given = {p_ for p_, a_ in ba_.items() if src(a_) == 'global_vars'}
                helper_loads += [(h_, c_, given) for c_ in inner]
    R.require(subs_nodes and loads, 'anchor: placeholder substitution / nested context loading not found in Context.prepare_context')
    load_nodes = [cn.id for c in loads for cn in cfg_nodes_for(cfg, c)]
    gv_edges = [n.id for n in cfg.nodes.values() if n.kind == 'edge' and src(n.ast) in ('global_vars is not None',) and n.label == 'F'] + \
               [n.id for n in cfg.nodes.values() if n.kind == 'edge' and src(n.ast) in ('global_vars is None', 'not global_vars') and n.label == 'T']
    p = cfg.find_path([cfg.entry.id], load_nodes, avoid=subs_nodes + gv_edges)
    R.check(p is None, 'R11.5', 'Context.prepare_context: uses', key_of('uses-order'), 'uses substituted before being loaded', 'context `uses` paths are loaded before placeholders in them are substituted', witness=cfg.describe_path(p) if p else None, where=where(fpc))
    for h_, c, given in helper_loads:
        fwd = any(kw.arg == 'global_vars' and src(kw.value) in given for kw in c.keywords) or (len(c.args) >= 3 and src(c.args[2]) in given)
        R.check(fwd, 'R11.5', f'{h_.short}: `{src(c)[:50]}`', key_of('forward-global-vars', src(c)), 'variables forwarded to nested contexts',
                'a context loaded through `uses` does not receive global_vars: placeholders in its own `uses` are never substituted', where=where(h_, c))
    for c in [c_ for c_ in loads if _is_load(c_)]:
        fwd = any(kw.arg == 'global_vars' and src(kw.value) == 'global_vars' for kw in c.keywords) or (len(c.args) >= 3 and src(c.args[2]) == 'global_vars')
        R.check(fwd, 'R11.5', f'Context.prepare_context: `{src(c)[:50]}`', key_of('forward-global-vars', src(c)), 'variables forwarded to nested contexts',
                'a context loaded through `uses` does not receive global_vars: placeholders in its own `uses` are never substituted', where=where(fpc, c))
    fag = cfgc.methods.get('apply_global_vars')
    whole = any(isinstance(n, ast.Call) and src(n.func) == 'search_and_replace_placeholders' and n.args and src(n.args[0]) == 'self._data' for n in A.typer.own_nodes(fag))
    R.check(whole, 'R11.5', 'Config.apply_global_vars', key_of('whole-data'), 'substitution over the whole config data', 'placeholder substitution no longer covers the whole config data', where=where(fag))

    # ---- R11.7 a substituted string behaves as an ordinary string: no exact-type test on config-derived values
    from ..configtaint import ConfigTaint, exact_str_tests
    R.rule('R11.7', 'no `type(x) is str`-style test on a value that can come from config / context data (a substituted placeholder string is a str subclass)', floor=1)
    CT = ConfigTaint(A)
    # positive controls: the taint reaches the entries of `uses` / `tasks`, and not the task declarations of Meta
    fpd0, fpc0 = A.func('Chain._process_dependencies'), A.func('Chain._process_config')
    uses_loops = [n for n in A.typer.own_nodes(fpc0) if isinstance(n, ast.For) and "'uses'" in src(n.iter)]
    R.require(uses_loops and all(CT.tainted(lp.iter, fpc0) for lp in uses_loops), 'positive control failed: the `uses` entries of a config are not recognised as config-derived')
    n_tests = 0
    for g in A.prog.functions.values():
        for cmp_, e in exact_str_tests(A, g):
            n_tests += 1
            if CT.tainted(e, g):
                R.violation('R11.7', f'{g.short}: `{src(cmp_)}`', key_of('exact-str-test', g.short, src(cmp_)),
                            f'`{src(cmp_)}` tests the exact type of a value taken from config / context data: after placeholder substitution the value is a str subclass, so the string branch is not taken '
                            '(the entry is then iterated character by character or rejected)', where=where(g, cmp_))
            else:
                R.ok('R11.7', f'{g.short}: `{src(cmp_)}`', 'tested value does not come from config data', where=where(g, cmp_))
    if n_tests == 0:
        R.ok('R11.7', 'package', 'no exact-type string test in the package', where='src/taskchain')

    # ---- R11.8 the result of a substitution on a possibly-string value is used
    R.rule('R11.8', 'where the substituted value can be a string (immutable), the result of search_and_replace_placeholders is kept', floor=1)
    n_calls = 0
    for g in A.prog.functions.values():
        for n in A.typer.own_nodes(g):
            if isinstance(n, ast.Call) and src(n.func).split('.')[-1] == 'search_and_replace_placeholders' and n.args and g.name != 'search_and_replace_placeholders':
                n_calls += 1
                discarded = isinstance(getattr(n, '_parent', None), ast.Expr)
                arg_t = src(n.args[0])
                # the same value is later normalised with list_or_str_to_list / tested for str: it may be a bare string
                maybe_str = any(isinstance(m, ast.Call) and src(m.func) == 'list_or_str_to_list' and m.args and src(m.args[0]) == arg_t for m in A.typer.own_nodes(g)) or \
                    any(isinstance(m, ast.Call) and src(m.func) == 'isinstance' and len(m.args) == 2 and src(m.args[0]) == arg_t and 'str' in src(m.args[1]) for m in A.typer.own_nodes(g))
                R.check(not (discarded and maybe_str), 'R11.8', f'{g.short}: `{src(n)[:60]}`', key_of('discarded-substitution', g.short, arg_t),
                        'result kept, or the value is a container (substituted in place)',
                        f'`{arg_t}` can be a bare string (it is normalised with list_or_str_to_list afterwards) but the substituted string returned by the call is discarded: the placeholder stays', where=where(g, n))
    R.require(n_calls >= 2, 'anchor: calls of search_and_replace_placeholders (Config.apply_global_vars, Context.prepare_context) not found')

    # ---- R11.6
    R.rule('R11.6', 'the name group of the placeholder pattern cannot run over a closing brace (lazy repeat or a class excluding `}`)', floor=1)
    for c, pat in subs:
        if not (isinstance(pat, ast.Constant) and isinstance(pat.value, str)):
            R.undecided('R11.6', '_apply: pattern', 'pattern is not a string literal', where=where(fap, c))
            continue
        try:
            parsed = list(sre_parse.parse(pat.value))
        except Exception as e:  # pragma: no cover
            R.violation('R11.6', '_apply: pattern', key_of('bad-regex', pat.value), f'pattern {pat.value!r} does not parse: {e}', where=where(fap, c))
            continue
        ok, why = _pattern_ok(parsed)
        R.check(ok, 'R11.6', f'_apply: pattern {pat.value!r}', key_of('pattern', pat.value), 'brace-delimited, non-greedy / brace-free name', f'pattern {pat.value!r}: {why}', where=where(fap, c))

    # substitution is done in place on the config's data: values taken over from a context must be the config's own copies
    from .c09 import check_context_isolation
    R.rule('R11.10', 'what is substituted in place is the config\'s own copy: context values reach a config only through deepcopy', floor=2)
    check_context_isolation(A, R, 'R11.10')

    R.rule('R11.11', 'a string is turned into a ReprStr whenever a placeholder matched in it, independent of the replacement values', floor=1)
    check_wrap_condition(A, R, 'R11.11')


def _pattern_ok(parsed):
    import re._constants as C
    if len(parsed) != 3 or parsed[0] != (C.LITERAL, ord('{')) or parsed[2] != (C.LITERAL, ord('}')) or parsed[1][0] != C.SUBPATTERN:
        return False, 'not of the form {<group>}'
    inner = list(parsed[1][1][3])
    if len(inner) != 1:
        return False, 'name group is not a single repeat'
    op, arg = inner[0]
    if op == C.MIN_REPEAT:
        lo = arg[0]
        body = list(arg[2])
        brace_free = len(body) == 1 and ((body[0][0] == C.NOT_LITERAL and body[0][1] == ord('}')) or
                                         (body[0][0] == C.IN and list(body[0][1]) and list(body[0][1])[0][0] == C.NEGATE and (C.LITERAL, ord('}')) in list(body[0][1])))
        if lo > 0 and not brace_free:
            # a lazy repeat stops at the first `}` only if it may stop at once: with a minimum length the forced characters can be braces
            return False, f'lazy name group with a minimum of {lo} character(s) of any kind: for an empty `{{}}` the forced character is the closing brace itself, so `{{}}_{{RUN}}` is taken as one placeholder named `}}_{{RUN` and RUN is not substituted'
        return True, ''
    if op == C.MAX_REPEAT:
        body = list(arg[2])
        if len(body) == 1 and body[0][0] == C.NOT_LITERAL and body[0][1] == ord('}'):
            return True, ''
        if len(body) == 1 and body[0][0] == C.IN:
            items = list(body[0][1])
            if items and items[0][0] == C.NEGATE and (C.LITERAL, ord('}')) in items:
                return True, ''
            if all(i[0] in (C.CATEGORY, C.RANGE, C.LITERAL) and i != (C.LITERAL, ord('}')) for i in items) and not any(i[0] == C.NEGATE for i in items):
                return True, ''
        return False, 'greedy name group: two placeholders in one string are taken as one (`{A}/{B}` -> name `A}/{B`)'
    return False, 'name group is not a repeat'


def _parents(n):
    p = getattr(n, '_parent', None)
    while p is not None and not isinstance(p, (ast.FunctionDef, ast.AsyncFunctionDef)):
        yield p
        p = getattr(p, '_parent', None)
