"""Iteration independence - one rule, instantiated per property on that property's own loops.

The loops listed here process *declarations* one by one (inputs of a task, configs of a chain, contexts of a list,
chains of a MultiChain, chunks of a map, items of a stored sequence, tasks of a migration).  The properties quantify
over all orders and all combinations of such declarations, so what one iteration decides must not depend on a local
that an earlier iteration happened to leave behind (a default that is reset only on one branch, a lookup result that
survives a failed lookup, a set of exclusions that is created once for all configs).  `loop_carried` (rules/common.py)
finds such reads on the CFG: a path from the body entry to the read that completes no assignment of the name in the
body (an assignment that raises does not count as completed).  In-place accumulators, constant-toggled flags and
names that are read after the loop are meant to be carried and are not reported.
"""
from __future__ import annotations

from .common import check_iteration_independence

# property -> (rule id, [(class or None, function)], what goes wrong)
TABLE = {
    'C03': ('R03.8', [(None, 'repr_from_instantiation'), ('AutoParameterObject', 'repr'), ('ParameterRegistry', 'repr'), ('TaskParameterConfig', 'get_name_for_persistence'), ('TaskParameterConfig', '__init__')],
            'the rendering of one value / parameter / input task depends on the ones rendered before it'),
    'C06': ('R06.8', [('ListOfNumpyData', 'load'), ('ListOfNumpyData', 'save'), (None, 'write_jsons'), (None, 'iter_json_file'), ('GeneratedData', 'load'), ('GeneratedData', 'save'), ('GeneratedDataLazy', 'save')],
            'one stored / loaded item is derived from the item before it'),
    'C07': ('R07.8', [('Chain', 'force'), ('MultiChain', 'force'), ('Chain', 'dependent_tasks'), ('Chain', 'required_tasks')],
            'whether / how one task is forced depends on the task handled before it'),
    'C08': ('R08.8', [('Chain', '_process_dependencies'), ('Chain', '_create_tasks'), ('Chain', '_expand_tasks'), ('Chain', '_recreate_tasks_with_parameter_config'), ('Chain', '_build_graph'), ('Chain', '_process_config')],
            'how one declaration (input, task, config) is processed depends on the declarations processed before it - the graph then depends on declaration order'),
    'C09': ('R09.11', [('Chain', '_process_config'), ('Context', 'merge_contexts'), ('Context', 'prepare_context'), ('Config', 'apply_context'), ('Config', '_update_uses'), ('Config', '_get_part'), ('Config', 'prepare_objects')],
            'the values one config / context receives depend on the entries processed before it'),
    'C10': ('R10.6', [(None, '_find_task_full_name'), ('Chain', '_process_dependencies'), ('Chain', '_expand_tasks')],
            'the resolution of one name depends on the names resolved before it (a failed lookup keeps the previous answer)'),
    'C11': ('R11.9', [(None, 'search_and_apply'), (None, 'search_and_replace_placeholders'), (None, 'find_and_instantiate_clazz')],
            'what is substituted into one value depends on the values visited before it'),
    'C13': ('R13.5', [('MultiChain', '_prepare'), ('MultiChain', 'force'), ('MultiChain', 'from_dir')],
            'how one member chain is built / forced depends on the chains handled before it'),
    'C16': ('R16.7', [('cached', '__call__')],
            'the key part of one argument depends on the arguments normalised before it'),
    'C17': ('R17.5', [(None, 'parallel_map'), (None, 'chunked')],
            'the result slot of one element depends on the element handled before it'),
    'C20': ('R20.8', [(None, 'migrate_to_parameter_mode')],
            'what is copied for one task depends on the task migrated before it'),
}


# property -> (rule id, [(class or None, function, parameter)], what goes wrong): parameters that callers may pass as one-shot iterables
PARAMS = {
    'C07': ('R07.9', [('Chain', 'force', 'tasks'), ('MultiChain', 'force', 'tasks')],
            'the tasks named by the caller are only seen by the first consumer: later ones (the closure of dependants, the other member chains) force nothing'),
    'C13': ('R13.8', [('MultiChain', 'force', 'tasks')],
            'only the first member chain sees the tasks to force; the others keep serving their stored results'),
    'C17': ('R17.7', [(None, 'parallel_map', 'iterable'), (None, 'chunked', 'iterable'), (None, 'parallel_starmap', 'iterable')],
            'elements taken by the first consumer are never mapped (a generator input loses its first element / comes back empty)'),
}


def run_params(A, R, prop):
    if prop not in PARAMS:
        return
    from .common import consumed_more_than_once, where
    from ..model import src
    from ..report import key_of
    rid, specs, why = PARAMS[prop]
    R.rule(rid, 'an iterable handed in by the caller (it may be a generator) is consumed at most once', floor=0)
    n = 0
    for cn, fn, pn in specs:
        if cn is None:
            funcs = [f for f in A.prog.functions.values() if f.name == fn and f.cls is None and f.parent is None]
        else:
            ci = A.prog.find_cls(cn)
            funcs = [ci.methods[fn]] if ci is not None and fn in ci.methods else []
        for f in funcs:
            if pn not in f.params:
                continue
            n += 1
            tw = consumed_more_than_once(A, f, pn)
            R.check(tw is None, rid, f'{f.short}: `{pn}`', key_of('param-consumed-twice', f.short, pn), 'one pass (or materialised first)',
                    f'`{pn}` is consumed by `{src(tw[1])[:50] if tw else ""}` {"once per iteration of `" + src(tw[0]).splitlines()[0][:50] + "`" if tw and hasattr(tw[0], "body") else "after `" + (src(tw[0])[:50] if tw else "") + "`"}: '
                    f'when the caller passes a generator, {why}', where=where(f, tw[1]) if tw else where(f))
    if n == 0:
        R.ok(rid, 'parameters', 'no such parameter left', where='-')


def run(A, R, prop):
    run_params(A, R, prop)
    if prop not in TABLE:
        return
    rid, specs, why = TABLE[prop]
    funcs = []
    for cn, fn in specs:
        if cn is None:
            funcs += [f for f in A.prog.functions.values() if f.name == fn and f.cls is None and f.parent is None]
        else:
            ci = A.prog.find_cls(cn)
            m = ci.methods.get(fn) if ci is not None else None
            if m is not None:
                funcs.append(m)
    R.rule(rid, 'iterations are independent: no loop of the anchored functions reads a local that only an earlier iteration assigned', floor=0)
    n = check_iteration_independence(A, R, rid, funcs, why)
    if n == 0:
        R.ok(rid, 'loops', 'no loop left in the anchored functions', where='-')
    # the same functions: a one-shot iterator (generator expression, map / zip / filter object) is not consumed twice
    from .common import oneshot_reuse, where
    from ..model import src
    from ..report import key_of
    allf = []
    for f in funcs:
        allf.append(f)
        stack = list(f.nested.values())
        while stack:
            g = stack.pop()
            allf.append(g)
            stack.extend(g.nested.values())
    for f in allf:
        for name, dnode, site in oneshot_reuse(A, f):
            R.violation(rid, f'{f.short}: one-shot iterator `{name}`', key_of('oneshot-reuse', f.short, name),
                        f'`{src(dnode)[:70]}` creates a one-shot iterator that `{src(site)[:60] if not hasattr(site, "iter") or hasattr(site, "body") else "a comprehension"}` consumes more than once '
                        f'(inside a loop it was created outside of, or at two places): from the second time on it is empty, so {why}', where=where(f, dnode))
