"""Iteration independence - one rule, instantiated per property on that property's own loops.

The loops listed here process *declarations* one by one (inputs of a task, configs of a chain, contexts of a list,
chains of a MultiChain, chunks of a map, items of a stored sequence, tasks of a migration).  The properties quantify
over all orders and all combinations of such declarations, so what one iteration decides must not depend on a local
that an earlier iteration happened to leave behind (a default that is reset only on one branch, a lookup result that
survives a failed lookup, a set of exclusions that is created once for all configs).  `loop_carried` (rules/common.py)
finds such reads on the CFG: a path from the body entry to the read that completes no assignment of the name in the
body (an assignment that raises does not count as completed).  In-place accumulators, constant-toggled flags and
names that are read after the loop are meant to be carried and are not reported.
"""
from __future__ import annotations

from .common import check_iteration_independence

# property -> (rule id, [(class or None, function)], what goes wrong)
TABLE = {
    'C03': ('R03.8', [(None, 'repr_from_instantiation'), ('AutoParameterObject', 'repr'), ('ParameterRegistry', 'repr'), ('TaskParameterConfig', 'get_name_for_persistence'), ('TaskParameterConfig', '__init__')],
            'the rendering of one value / parameter / input task depends on the ones rendered before it'),
    'C06': ('R06.8', [('ListOfNumpyData', 'load'), ('ListOfNumpyData', 'save'), (None, 'write_jsons'), (None, 'iter_json_file'), ('GeneratedData', 'load'), ('GeneratedData', 'save'), ('GeneratedDataLazy', 'save')],
            'one stored / loaded item is derived from the item before it'),
    'C07': ('R07.8', [('Chain', 'force'), ('MultiChain', 'force'), ('Chain', 'dependent_tasks'), ('Chain', 'required_tasks')],
            'whether / how one task is forced depends on the task handled before it'),
    'C08': ('R08.8', [('Chain', '_process_dependencies'), ('Chain', '_create_tasks'), ('Chain', '_expand_tasks'), ('Chain', '_recreate_tasks_with_parameter_config'), ('Chain', '_build_graph'), ('Chain', '_process_config')],
            'how one declaration (input, task, config) is processed depends on the declarations processed before it - the graph then depends on declaration order'),
    'C09': ('R09.11', [('Chain', '_process_config'), ('Context', 'merge_contexts'), ('Context', 'prepare_context'), ('Config', 'apply_context'), ('Config', '_update_uses'), ('Config', '_get_part'), ('Config', 'prepare_objects')],
            'the values one config / context receives depend on the entries processed before it'),
    'C10': ('R10.6', [(None, '_find_task_full_name'), ('Chain', '_process_dependencies'), ('Chain', '_expand_tasks')],
            'the resolution of one name depends on the names resolved before it (a failed lookup keeps the previous answer)'),
    'C11': ('R11.9', [(None, 'search_and_apply'), (None, 'search_and_replace_placeholders'), (None, 'find_and_instantiate_clazz')],
            'what is substituted into one value depends on the values visited before it'),
    'C13': ('R13.5', [('MultiChain', '_prepare'), ('MultiChain', 'force'), ('MultiChain', 'from_dir')],
            'how one member chain is built / forced depends on the chains handled before it'),
    'C16': ('R16.7', [('cached', '__call__')],
            'the key part of one argument depends on the arguments normalised before it'),
    'C17': ('R17.5', [(None, 'parallel_map'), (None, 'chunked')],
            'the result slot of one element depends on the element handled before it'),
    'C20': ('R20.8', [(None, 'migrate_to_parameter_mode')],
            'what is copied for one task depends on the task migrated before it'),
}


def run(A, R, prop):
    if prop not in TABLE:
        return
    rid, specs, why = TABLE[prop]
    funcs = []
    for cn, fn in specs:
        if cn is None:
            funcs += [f for f in A.prog.functions.values() if f.name == fn and f.cls is None and f.parent is None]
        else:
            ci = A.prog.find_cls(cn)
            m = ci.methods.get(fn) if ci is not None else None
            if m is not None:
                funcs.append(m)
    R.rule(rid, 'iterations are independent: no loop of the anchored functions reads a local that only an earlier iteration assigned', floor=0)
    n = check_iteration_independence(A, R, rid, funcs, why)
    if n == 0:
        R.ok(rid, 'loops', 'no loop left in the anchored functions', where='-')
