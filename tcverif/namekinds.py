"""Name kinds: a small nominal type system over strings that are structured task / namespace names.

  NS    namespace path            a::b
  FULL  full task name            a::b::group:name   (also keys of any Dict[str, Task], keys of InputTasks)
  SLUG  group-qualified task name group:name

Sources are semantic (attribute `namespace`, `fullname`, `slugname`, keys of task dictionaries, f-strings that join
a namespace with `::`); kinds propagate through single assignments, loop / comprehension targets and call arguments
of functions whose call sites are all visible (nested and module-private functions).
"""
from __future__ import annotations

import ast
from typing import Dict, List, Optional, Tuple

from .core import Analysis
from .model import FuncInfo, _dotted, src
from .types import Ctx

NS, FULL, SLUG = 'NS', 'FULL', 'SLUG'


class NameKinds:
    def __init__(self, A: Analysis):
        self.A = A
        self.T = A.typer
        self._memo: Dict[Tuple[int, int], Optional[str]] = {}
        self._stack = set()
        self._param_cache: Dict[Tuple[str, str], Tuple[Optional[str], Optional[str]]] = {}

    # ------------------------------------------------------------------ helpers
    def _ctx(self, func: FuncInfo) -> Ctx:
        cs = self.T.contexts_of(func)
        if cs:
            return cs[0]
        root = func
        while root.parent is not None:
            root = root.parent
        rc = self.T.contexts_of(root)
        return Ctx(func, rc[0].recv if rc else None)

    def _task_dict(self, expr, func) -> bool:
        """expr is a mapping name -> Task (keys are full names)."""
        ts = self.T.expr(expr, self._ctx(func))
        for t in ts:
            if t[0] == 'dict' and any(v[0] == 'inst' and v[1].name in ('Task',) or (v[0] == 'inst' and any(c.name == 'Task' for c in v[1].in_pkg_mro())) for v in t[2]):
                return True
            if t[0] == 'inst' and t[1].name == 'InputTasks':
                return True
        return False

    # ------------------------------------------------------------------ kinds of string expressions
    def kind(self, expr, func: FuncInfo) -> Optional[str]:
        key = (id(expr), id(func.node))
        if key in self._memo:
            return self._memo[key]
        if key in self._stack:
            return None
        self._stack.add(key)
        try:
            k = self._kind(expr, func)
        finally:
            self._stack.discard(key)
        self._memo[key] = k
        return k

    def _kind(self, expr, func) -> Optional[str]:
        if isinstance(expr, ast.Attribute):
            if expr.attr in ('namespace', 'outer_namespace'):
                return NS
            if expr.attr == 'fullname':
                # Config.fullname / Chain.fullname are config names, Task.fullname is a task name
                ts = self.T.expr(expr.value, self._ctx(func))
                if any(t[0] in ('inst', 'cls') and any(c.name in ('Config', 'Chain') for c in t[1].in_pkg_mro()) for t in ts):
                    return None
                return FULL
            if expr.attr == 'slugname':
                return SLUG
            return None
        if isinstance(expr, ast.Call):
            # '::'.join(x.split('::')[:-1]) - the namespace part of a full name
            if isinstance(expr.func, ast.Attribute) and expr.func.attr == 'join' and isinstance(expr.func.value, ast.Constant) and expr.func.value.value == '::' and len(expr.args) == 1:
                a0 = expr.args[0]
                if isinstance(a0, ast.Subscript) and isinstance(a0.slice, ast.Slice) and isinstance(a0.value, ast.Call) and isinstance(a0.value.func, ast.Attribute) and a0.value.func.attr == 'split' \
                        and a0.value.args and isinstance(a0.value.args[0], ast.Constant) and a0.value.args[0].value == '::':
                    return NS
                # *namespace_parts, short = x.split('::')  ...  '::'.join(namespace_parts)
                if isinstance(a0, ast.Name) and self._split_part(a0.id, func) == 'ns-parts':
                    return NS
            if isinstance(expr.func, ast.Attribute) and expr.func.attr == 'fullname':
                return FULL
            if isinstance(expr.func, ast.Name) and expr.func.id == '_find_task_full_name':
                return FULL
            if isinstance(expr.func, ast.Name) and expr.func.id == 'str' and expr.args:
                return self.kind(expr.args[0], func)
            return None
        if isinstance(expr, ast.JoinedStr):
            parts = expr.values
            has_sep = any(isinstance(p, ast.Constant) and '::' in str(p.value) for p in parts)
            kinds = [self.kind(p.value, func) for p in parts if isinstance(p, ast.FormattedValue)]
            if has_sep and kinds and kinds[0] == NS:
                if len(kinds) == 1 and isinstance(parts[-1], ast.Constant):
                    return None  # f'{ns}::' - a prefix pattern, not a name
                return FULL if kinds[-1] in (SLUG, FULL) or kinds[-1] is None else NS
            return None
        if isinstance(expr, ast.BinOp) and isinstance(expr.op, ast.Add):
            return None
        if isinstance(expr, ast.Subscript):
            # x.split('::')[-1] - the slug part of a full name
            if isinstance(expr.value, ast.Call) and isinstance(expr.value.func, ast.Attribute) and expr.value.func.attr == 'split' and expr.value.args \
                    and isinstance(expr.value.args[0], ast.Constant) and expr.value.args[0].value == '::' and not isinstance(expr.slice, ast.Slice):
                idx = expr.slice.value if isinstance(expr.slice, ast.Constant) else (-expr.slice.operand.value if isinstance(expr.slice, ast.UnaryOp) and isinstance(expr.slice.operand, ast.Constant) else None)
                if idx == -1:
                    return SLUG
            # element of a container of names
            ek = self.elem_kind(expr.value, func)
            if ek and not isinstance(expr.slice, ast.Slice):
                return ek
            if isinstance(expr.slice, ast.Slice):
                return self.kind(expr.value, func)
            return None
        if isinstance(expr, ast.IfExp):
            return self.kind(expr.body, func) or self.kind(expr.orelse, func)
        if isinstance(expr, ast.NamedExpr):
            return self.kind(expr.value, func)
        if isinstance(expr, ast.Name):
            return self._name_kind(expr.id, func, expr)[0]
        return None

    def _split_part(self, name: str, func: FuncInfo) -> Optional[str]:
        """'ns-parts' / 'last' if the local is the starred / the last target of `*parts, last = <x>.split('::')`"""
        for n in self.T.own_nodes(func):
            if isinstance(n, ast.Assign) and len(n.targets) == 1 and isinstance(n.targets[0], (ast.Tuple, ast.List)) and len(n.targets[0].elts) == 2 and isinstance(n.value, ast.Call) \
                    and isinstance(n.value.func, ast.Attribute) and n.value.func.attr == 'split' and n.value.args and isinstance(n.value.args[0], ast.Constant) and n.value.args[0].value == '::':
                a, b = n.targets[0].elts
                if isinstance(a, ast.Starred) and isinstance(a.value, ast.Name) and a.value.id == name:
                    return 'ns-parts'
                if isinstance(a, ast.Starred) and isinstance(b, ast.Name) and b.id == name:
                    return 'last'
        return None

    def _returned_tuple_kind(self, call: ast.Call, index: int, func: FuncInfo) -> Optional[str]:
        """kind of element `index` of the tuple a package helper returns (`ns, short = _split_namespace(name)`)"""
        nm = call.func.id if isinstance(call.func, ast.Name) else (call.func.attr if isinstance(call.func, ast.Attribute) else None)
        for g in self.A.prog.functions.values():
            if g.name == nm and g.parent is None:
                kinds = set()
                for r in self.T.own_nodes(g):
                    if isinstance(r, ast.Return) and isinstance(r.value, ast.Tuple) and index < len(r.value.elts):
                        kinds.add(self.kind(r.value.elts[index], g))
                kinds.discard(None)
                if len(kinds) == 1:
                    return next(iter(kinds))
        return None

    def elem_kind(self, expr, func: FuncInfo) -> Optional[str]:
        """Kind of the elements of an iterable of names."""
        if isinstance(expr, ast.Name):
            return self._name_kind(expr.id, func, expr)[1]
        if isinstance(expr, ast.Call):
            f = expr.func
            if isinstance(f, ast.Attribute) and f.attr == 'keys' and self._task_dict(f.value, func):
                return FULL
            if isinstance(f, ast.Name) and f.id in ('sorted', 'list', 'set', 'tuple', 'reversed') and expr.args:
                return self.elem_kind(expr.args[0], func)
            if isinstance(f, ast.Attribute) and f.attr == 'split':
                return None
            return None
        if isinstance(expr, (ast.ListComp, ast.SetComp, ast.GeneratorExp)):
            g = expr.generators[0]
            if isinstance(expr.elt, ast.Name) and isinstance(g.target, ast.Name) and expr.elt.id == g.target.id:
                return self.elem_kind(g.iter, func)
            return self._kind_in_comp(expr.elt, expr, func)
        if self._task_dict(expr, func):
            return FULL
        return None

    def _kind_in_comp(self, elt, comp, func):
        return self.kind(elt, func)

    def _name_kind(self, name: str, func: FuncInfo, at) -> Tuple[Optional[str], Optional[str]]:
        """(kind of the value, kind of its elements) for a local / parameter name."""
        f = func
        while f is not None:
            if name in self.T._binding_names(f):
                break
            f = f.parent
        if f is None:
            return None, None
        ck = (f.qualname, name)
        if ck in self._param_cache:
            return self._param_cache[ck]
        self._param_cache[ck] = (None, None)
        kinds, ekinds = set(), set()
        # definitions in f
        for n in self.T.own_nodes(f):
            if isinstance(n, ast.Assign):
                for t in n.targets:
                    if isinstance(t, ast.Name) and t.id == name:
                        kinds.add(self.kind(n.value, f))
                        ekinds.add(self.elem_kind(n.value, f))
                    elif isinstance(t, ast.Tuple) and isinstance(n.value, ast.Tuple) and len(t.elts) == len(n.value.elts):
                        for te, ve in zip(t.elts, n.value.elts):
                            if isinstance(te, ast.Name) and te.id == name:
                                kinds.add(self.kind(ve, f))
                    elif isinstance(t, ast.Tuple) and isinstance(n.value, ast.Call):
                        for i_, te in enumerate(t.elts):
                            if isinstance(te, ast.Name) and te.id == name:
                                kinds.add(self._returned_tuple_kind(n.value, i_, f))
                                if self._split_part(name, f) == 'last':
                                    kinds.add(SLUG)
            elif isinstance(n, ast.NamedExpr) and isinstance(n.target, ast.Name) and n.target.id == name:
                kinds.add(self.kind(n.value, f))
            elif isinstance(n, ast.Call) and isinstance(n.func, ast.Attribute) and n.func.attr in ('append', 'add') and isinstance(n.func.value, ast.Name) and n.func.value.id == name and n.args:
                ekinds.add(self.kind(n.args[0], f))
            elif isinstance(n, ast.AnnAssign) and isinstance(n.target, ast.Name) and n.target.id == name and n.value is not None:
                kinds.add(self.kind(n.value, f))
                ekinds.add(self.elem_kind(n.value, f))
            elif isinstance(n, (ast.For, ast.comprehension)):
                tgt, it = n.target, n.iter
                if isinstance(tgt, ast.Name) and tgt.id == name:
                    kinds.add(self.elem_kind(it, f))
                elif isinstance(tgt, ast.Tuple) and tgt.elts and isinstance(tgt.elts[0], ast.Name) and tgt.elts[0].id == name:
                    # first element of (key, value) pairs of a task dictionary
                    if isinstance(it, ast.Call) and isinstance(it.func, ast.Attribute) and it.func.attr == 'items' and self._task_dict(it.func.value, f):
                        kinds.add(FULL)
                    elif isinstance(it, ast.Call) and isinstance(it.func, ast.Name) and it.func.id in ('sorted', 'list') and it.args and isinstance(it.args[0], ast.Call) \
                            and isinstance(it.args[0].func, ast.Attribute) and it.args[0].func.attr == 'items' and self._task_dict(it.args[0].func.value, f):
                        kinds.add(FULL)
        # parameters: kinds of the arguments at visible call sites
        if name in f.params:
            idx = f.params.index(name)
            ann = f.param_annotation(name)
            if ann is not None and 'Dict[str, Task]' in src(ann):
                ekinds.add(FULL)
            for caller, call, shift in self._call_sites(f):
                pos = idx - shift
                arg = None
                if 0 <= pos < len(call.args):
                    arg = call.args[pos]
                for kw in call.keywords:
                    if kw.arg == name:
                        arg = kw.value
                if arg is not None:
                    kinds.add(self.kind(arg, caller))
                    ekinds.add(self.elem_kind(arg, caller))
        kinds.discard(None)
        ekinds.discard(None)
        k = (FULL if FULL in kinds else SLUG if SLUG in kinds else NS if NS in kinds else None)
        ek = (FULL if FULL in ekinds else SLUG if SLUG in ekinds else NS if NS in ekinds else None)
        self._param_cache[ck] = (k, ek)
        return k, ek

    def _call_sites(self, f: FuncInfo) -> List[Tuple[FuncInfo, ast.Call, int]]:
        out = []
        cache = getattr(self, '_sites', None)
        if cache is None:
            cache = self._sites = {}
            for g in self.A.prog.functions.values():
                for n in self.T.own_nodes(g):
                    if isinstance(n, ast.Call):
                        nm = n.func.id if isinstance(n.func, ast.Name) else (n.func.attr if isinstance(n.func, ast.Attribute) else None)
                        if nm:
                            cache.setdefault(nm, []).append((g, n))
        for g, n in cache.get(f.name, []):
            shift = 0
            if f.cls is not None and f.parent is None and not f.is_static and isinstance(n.func, ast.Attribute):
                shift = 1
            elif f.cls is not None and f.parent is None and f.is_static:
                shift = 0
            out.append((g, n, shift))
        return out


def mentions_separator(expr, A: Optional[Analysis] = None, func: Optional[FuncInfo] = None) -> bool:
    """The pattern operand carries the name separator (`::` or `:`) as literal text (also through a single-assignment local)."""
    if A is not None and func is not None and isinstance(expr, ast.Name):
        seen = 0
        while isinstance(expr, ast.Name) and seen < 4:
            defs = A.sym._local_defs(func).get(expr.id)
            if not defs or len(defs) != 1 or defs[0][0] != 'assign' or expr.id in func.params:
                break
            expr = defs[0][1]
            seen += 1
        # only a pattern that is *built around* the separator counts (f'{ns}::', ':' + cand, '{}::'.format(ns)); a name that
        # merely was computed with the help of the separator ('::'.join(parts[:-1])) does not carry it
        if not (isinstance(expr, (ast.JoinedStr, ast.Constant)) or (isinstance(expr, ast.BinOp) and isinstance(expr.op, (ast.Add, ast.Mod))) or
                (isinstance(expr, ast.Call) and isinstance(expr.func, ast.Attribute) and expr.func.attr == 'format' and isinstance(expr.func.value, ast.Constant))):
            return False
    for n in ast.walk(expr):
        if isinstance(n, ast.Constant) and isinstance(n.value, str) and ':' in n.value:
            return True
    return False


def textual_tests(A: Analysis, NK: NameKinds, func: FuncInfo):
    """Yield (node, op, X, Y, kindX, kindY) for textual affix / substring tests between structured names in conditions."""
    for n in A.typer.own_nodes(func):
        # skip asserts and message construction
        p = n
        in_assert = False
        while p is not None and not isinstance(p, (ast.FunctionDef, ast.AsyncFunctionDef, ast.Lambda)):
            if isinstance(p, (ast.Assert, ast.Raise, ast.JoinedStr)):
                in_assert = True
            p = getattr(p, '_parent', None)
        if in_assert:
            continue
        if isinstance(n, ast.Call) and isinstance(n.func, ast.Attribute) and n.func.attr in ('startswith', 'endswith') and len(n.args) >= 1:
            X, Y = n.func.value, n.args[0]
            kx, ky = NK.kind(X, func), NK.kind(Y, func)
            if kx and (ky or mentions_separator(Y, A, func)):
                yield n, n.func.attr, X, Y, kx, ky
        elif isinstance(n, ast.Compare) and len(n.ops) == 1 and isinstance(n.ops[0], (ast.In, ast.NotIn)):
            Y, X = n.left, n.comparators[0]
            kx, ky = NK.kind(X, func), NK.kind(Y, func)
            if kx and ky:
                yield n, 'in', X, Y, kx, ky
