"""Analysis bundle shared by all rules."""
from __future__ import annotations

import os
from typing import Dict, List, Optional

from .callgraph import CallGraph
from .cfg import CFG, cfg_of
from .model import AnalysisError, ClassInfo, FuncInfo, Program
from .terms import Sym
from .types import Ctx, Typer

REPO = os.environ.get('TCVERIF_REPO', '/repo')


class Analysis:
    def __init__(self, root: Optional[str] = None, overlay: Optional[Dict[str, str]] = None):
        self.root = root or REPO
        self.prog = Program(self.root, overlay)
        self.typer = Typer(self.prog)
        self._cg: Optional[CallGraph] = None
        self.sym = Sym(self.typer)

    @property
    def cg(self) -> CallGraph:
        if self._cg is None:
            self._cg = CallGraph(self.typer)
        return self._cg

    # anchors -------------------------------------------------------------
    def func(self, short: str) -> FuncInfo:
        return self.prog.func(short)

    def cls(self, short: str) -> ClassInfo:
        return self.prog.cls(short)

    def ctxs(self, func: FuncInfo) -> List[Ctx]:
        c = self.typer.contexts_of(func)
        if not c:
            raise AnalysisError(f'no analysis context for {func.short}')
        return c

    def ctx(self, func: FuncInfo, cls: Optional[ClassInfo] = None, kind='inst') -> Ctx:
        if cls is None:
            cs = self.ctxs(func)
            # prefer the owning class as receiver
            for c in cs:
                if c.recv is not None and func.cls is not None and c.recv[1] is func.cls:
                    return c
            return cs[0]
        return Ctx(func, (kind, cls))

    def cfg(self, func: FuncInfo) -> CFG:
        return cfg_of(func)

    def units(self) -> dict:
        u = self.prog.stats()
        u['contexts'] = len(self.typer.contexts())
        u['typing_rounds'] = self.typer.rounds
        if self._cg is not None:
            u.update(self._cg.stats())
        return u
