"""Analysis bundle shared by all rules."""
from __future__ import annotations

import ast
import os
from typing import Dict, List, Optional

from .callgraph import CallGraph
from .cfg import CFG, cfg_of
from .model import AnalysisError, ClassInfo, FuncInfo, Program
from .terms import Sym
from .types import Ctx, Typer

REPO = os.environ.get('TCVERIF_REPO', '/repo')


class Analysis:
    def __init__(self, root: Optional[str] = None, overlay: Optional[Dict[str, str]] = None):
        self.root = root or REPO
        self.prog = Program(self.root, overlay)
        self.typer = Typer(self.prog)
        self._cg: Optional[CallGraph] = None
        self.sym = Sym(self.typer)

    @property
    def cg(self) -> CallGraph:
        if self._cg is None:
            self._cg = CallGraph(self.typer)
        return self._cg

    # anchors -------------------------------------------------------------
    def func(self, short: str) -> FuncInfo:
        return self.prog.func(short)

    def cls(self, short: str) -> ClassInfo:
        return self.prog.cls(short)

    def ctxs(self, func: FuncInfo) -> List[Ctx]:
        c = self.typer.contexts_of(func)
        if not c:
            raise AnalysisError(f'no analysis context for {func.short}')
        return c

    def ctx(self, func: FuncInfo, cls: Optional[ClassInfo] = None, kind='inst') -> Ctx:
        if cls is None:
            cs = self.ctxs(func)
            # prefer the owning class as receiver
            for c in cs:
                if c.recv is not None and func.cls is not None and c.recv[1] is func.cls:
                    return c
            return cs[0]
        return Ctx(func, (kind, cls))

    def cfg(self, func: FuncInfo, inline=True, predicates=True) -> CFG:
        """CFG of func; private helpers (methods / functions whose name starts with `_`, nested functions) called as a
        statement are spliced in, so that extracting part of a function into a helper does not move the anchors."""
        return cfg_of(func, self._inline_resolver if inline else None, predicates)

    def _helper_target(self, call, owner_def) -> Optional[FuncInfo]:
        owner = getattr(owner_def, '_info', None)
        if owner is None:
            return None
        ctxs = self.typer.contexts_of(owner)
        if not ctxs:
            root = owner
            while root.parent is not None:
                root = root.parent
            rc = self.typer.contexts_of(root)
            ctxs = [Ctx(owner, rc[0].recv if rc else None)]
        tgs = self.typer.call_targets(call, ctxs[0])
        funcs = {id(t.func): t.func for t in tgs if t.kind == 'func'}
        if len(funcs) != 1 or len(funcs) != len([t for t in tgs if t.kind in ('func',)]) or any(t.kind not in ('func',) for t in tgs):
            return None
        f = next(iter(funcs.values()))
        if f is owner or isinstance(f.node, ast.Lambda):
            return None
        # only syntactically direct calls of the helper by its own name (not callbacks held in parameters / variables)
        called = call.func.id if isinstance(call.func, ast.Name) else (call.func.attr if isinstance(call.func, ast.Attribute) else None)
        if called != f.name:
            return None
        private = (f.name.startswith('_') and not f.name.startswith('__')) or f.parent is not None
        if not private:
            return None
        return f

    def _inline_resolver(self, call, owner_def):
        f = self._helper_target(call, owner_def)
        return f.node if f is not None else None

    def nodes(self, func: FuncInfo, depth=0, _seen=None):
        """[(ast node, owning FuncInfo)] of func's own body plus the bodies of the private helpers it calls as statements
        (recursively, depth <= 3): where a rule used to look for a construct "in func", it looks here."""
        if _seen is None:
            _seen = set()
        if func.qualname in _seen or depth > 3:
            return []
        _seen.add(func.qualname)
        out = [(n, func) for n in self.typer.own_nodes(func)]
        for n in list(self.typer.own_nodes(func)):
            if isinstance(n, (ast.Expr, ast.Assign, ast.Return, ast.AugAssign, ast.AnnAssign)):
                v = getattr(n, 'value', None)
                if isinstance(v, ast.Await):
                    v = v.value
                if isinstance(v, ast.Call):
                    h = self._helper_target(v, func.node)
                    if h is not None:
                        out.extend(self.nodes(h, depth + 1, _seen))
        return out

    def nodes_with_sites(self, func: FuncInfo, depth=0, _stack=(), _sites=()):
        """[(ast node, owning FuncInfo, call sites)] like nodes(); `call sites` are the call nodes (outermost first)
        through which the owning helper was reached from func - its lexical context continues there.  A helper called
        at several sites is listed once per site."""
        if func.qualname in _stack or depth > 3:
            return []
        _stack = _stack + (func.qualname,)
        out = [(n, func, _sites) for n in self.typer.own_nodes(func)]
        for n in list(self.typer.own_nodes(func)):
            if isinstance(n, (ast.Expr, ast.Assign, ast.Return, ast.AugAssign, ast.AnnAssign)):
                v = getattr(n, 'value', None)
                if isinstance(v, ast.Await):
                    v = v.value
                if isinstance(v, ast.Call):
                    h = self._helper_target(v, func.node)
                    if h is not None:
                        out.extend(self.nodes_with_sites(h, depth + 1, _stack, _sites + (v,)))
        return out

    def units(self) -> dict:
        u = self.prog.stats()
        u['contexts'] = len(self.typer.contexts())
        u['typing_rounds'] = self.typer.rounds
        if self._cg is not None:
            u.update(self._cg.stats())
        return u
