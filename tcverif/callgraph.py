"""Call graph over analysis contexts (function x concrete receiver class).

Edges come from calls, property reads, protocol methods of in-package classes (subscript, `in`, iteration, `with`,
str()/f-string formatting, len, ==), nested-function and lambda invocation, and callbacks passed by name to
in-package functions.  `self.m()` resolves in the MRO of the receiver class under analysis; any other typed receiver
dispatches over the static class and all its in-package subclasses.
"""
from __future__ import annotations

import ast
from collections import deque
from typing import Callable, Dict, Iterable, List, Optional, Tuple

from .model import FuncInfo, Program, _dotted, src
from .types import Ctx, Target, Typer


class Edge:
    __slots__ = ('src', 'node', 'target', 'kind', 'exact')

    def __init__(self, src_: Ctx, node, target: Target, kind: str, exact: bool):
        self.src = src_
        self.node = node
        self.target = target
        self.kind = kind
        self.exact = exact

    @property
    def dst(self) -> Optional[Ctx]:
        return self.target.ctx

    def where(self) -> str:
        return f'{self.src.func.module.relpath}:{getattr(self.node, "lineno", "?")}'

    def __repr__(self):
        return f'<edge {self.src} -> {self.target} [{self.kind}] `{src(self.node)[:60]}`>'


# external callees that invoke a function argument (anything else merely receives it: signature(), get_type_hints(), wraps())
_HIGHER_ORDER = {'builtins.map', 'builtins.filter', 'builtins.sorted', 'builtins.max', 'builtins.min', 'functools.partial', 're.sub', 're.subn',
                 'functools.reduce', 'itertools.starmap', 'builtins.next', 'builtins.iter'}
_HIGHER_ORDER_METHODS = {'run_in_executor', 'run_until_complete', 'submit', 'map', 'apply', 'sort', 'setdefault'}

_PROTOCOLS = {
    ast.Subscript: '__getitem__',
}


def is_exact_receiver(typer: Typer, expr, ctx: Ctx) -> bool:
    """`self` / `cls` (first parameter of the enclosing method) and super() are exact w.r.t. ctx.recv."""
    if isinstance(expr, ast.Call) and isinstance(expr.func, ast.Name) and expr.func.id == 'super':
        return True
    if isinstance(expr, ast.Name):
        f = ctx.func
        while f is not None and f.parent is not None:
            f = f.parent
        if f is not None and f.cls is not None and not f.is_static and f.pos_params and f.pos_params[0] == expr.id:
            g = ctx.func
            while g is not f:
                if expr.id in g.params:
                    return False  # shadowed by a nested function's own parameter
                g = g.parent
            return True
    if isinstance(expr, ast.Attribute) and expr.attr == '__class__':
        return is_exact_receiver(typer, expr.value, ctx)
    return False


class CallGraph:
    def __init__(self, typer: Typer):
        self.typer = typer
        self.prog: Program = typer.prog
        self.edges: Dict[Ctx, List[Edge]] = {}
        self.sites = {'calls': 0, 'resolved_calls': 0, 'external_calls': 0, 'unknown_calls': 0, 'property_reads': 0,
                      'protocol': 0, 'unresolved_member_attr': 0}
        self.unknown_calls: List[Tuple[Ctx, ast.AST, str]] = []
        self.unresolved_attrs: List[Tuple[Ctx, ast.AST]] = []
        for ctx in typer.contexts():
            self.edges[ctx] = self._edges_of(ctx)

    # ------------------------------------------------------------------
    def _is_exact_receiver(self, expr, ctx: Ctx) -> bool:
        return is_exact_receiver(self.typer, expr, ctx)

    def _expand(self, tg: Target, exact: bool, name: Optional[str]) -> List[Target]:
        if tg.kind != 'func' or exact or tg.recv is None or name is None:
            return [tg]
        f = tg.func
        if f.parent is not None:
            return [tg]
        kind, ci = tg.recv
        out, seen = [], set()
        for c in ci.all_subclasses():
            if kind == 'inst' or f.cls is None or not (ci.metaclass and f.cls in ci.metaclass.in_pkg_mro()):
                impl = c.lookup(name)
                if impl is None and c.metaclass is not None:
                    impl = c.metaclass.lookup(name)
            else:
                impl = c.metaclass.lookup(name) if c.metaclass else None
            if impl is None:
                continue
            key = (id(impl), c.qualname)
            if key in seen:
                continue
            seen.add(key)
            out.append(Target('func', impl, (kind, c), via=tg.via))
        return out or [tg]

    def _edges_of(self, ctx: Ctx) -> List[Edge]:
        T = self.typer
        out: List[Edge] = []
        f = ctx.func
        def add(node, tg: Target, kind: str, exact: bool, name: Optional[str]):
            for t in self._expand(tg, exact, name):
                out.append(Edge(ctx, node, t, kind, exact))

        if True:
            for node in T.own_nodes(f):
                if isinstance(node, ast.Call):
                    self.sites['calls'] += 1
                    recv_expr = node.func.value if isinstance(node.func, ast.Attribute) else None
                    exact = recv_expr is not None and self._is_exact_receiver(recv_expr, ctx)
                    mname = node.func.attr if isinstance(node.func, ast.Attribute) else None
                    tgs = T.call_targets(node, ctx)
                    kinds = {t.kind for t in tgs}
                    if 'func' in kinds or 'ctor' in kinds:
                        self.sites['resolved_calls'] += 1
                    elif 'ext' in kinds:
                        self.sites['external_calls'] += 1
                    else:
                        self.sites['unknown_calls'] += 1
                        self.unknown_calls.append((ctx, node, tgs[0].name if tgs else '?'))
                    for tg in tgs:
                        if tg.kind == 'ctor':
                            # constructor: __init__ of the class (and of every subclass when the class value is not exact)
                            classes = [tg.cls] if isinstance(node.func, ast.Name) and T.prog.resolve_global(f.module, node.func.id) else tg.cls.all_subclasses()
                            for c in classes:
                                init = c.lookup('__init__')
                                out.append(Edge(ctx, node, Target('ctor', cls=c, via='call'), 'ctor', True))
                                if init is not None:
                                    out.append(Edge(ctx, node, Target('func', init, ('inst', c), via='call'), 'call', True))
                        elif tg.kind == 'func':
                            add(node, tg, 'call', exact or tg.recv is None or recv_expr is None, mname)
                        else:
                            out.append(Edge(ctx, node, tg, 'call', True))
                    # callbacks passed by name to in-package callees / known higher-order externals
                    passes_cb = any(t.kind in ('func', 'ctor', 'unknown') for t in tgs) or any(
                        t.kind == 'ext' and (t.name in _HIGHER_ORDER or t.name.split('.')[-1] in _HIGHER_ORDER_METHODS) for t in tgs)
                    for a in (list(node.args) + [k.value for k in node.keywords]) if passes_cb else ():
                        for t in T.expr(a, ctx) if isinstance(a, (ast.Name, ast.Attribute, ast.Lambda)) else ():
                            if t[0] == 'func' and not isinstance(a, ast.Call):
                                out.append(Edge(ctx, a, Target('func', t[1], t[2], via='callback'), 'callback', True))
                    # str()/repr()/print()/len() protocol
                    if isinstance(node.func, ast.Name) and node.func.id in ('str', 'repr', 'print', 'len', 'bool', 'iter', 'list', 'sorted') and node.args:
                        proto = {'str': ['__str__'], 'repr': ['__repr__'], 'print': ['__str__'], 'len': ['__len__'], 'bool': ['__bool__', '__len__'],
                                 'iter': ['__iter__'], 'list': ['__iter__'], 'sorted': ['__iter__']}[node.func.id]
                        self._protocol(ctx, node.args[0], proto, out, node)
                elif isinstance(node, ast.Attribute) and isinstance(node.ctx, ast.Load):
                    ts, tgs = T.attribute(node, ctx)
                    exact = self._is_exact_receiver(node.value, ctx)
                    for tg in tgs:
                        self.sites['property_reads'] += 1
                        add(node, tg, tg.via or 'property', exact, node.attr if tg.via == 'property' else '__getattr__')
                    if not ts and not tgs and node.attr in T._member_names and not T.expr(node.value, ctx):
                        par = getattr(node, '_parent', None)
                        self.sites['unresolved_member_attr'] += 1
                        self.unresolved_attrs.append((ctx, node))
                elif isinstance(node, ast.Subscript) and isinstance(node.ctx, ast.Load):
                    self._protocol(ctx, node.value, ['__getitem__'], out, node)
                elif isinstance(node, ast.Subscript) and isinstance(node.ctx, ast.Store):
                    self._protocol(ctx, node.value, ['__setitem__'], out, node)
                elif isinstance(node, ast.Compare):
                    for op, comp in zip(node.ops, node.comparators):
                        if isinstance(op, (ast.In, ast.NotIn)):
                            self._protocol(ctx, comp, ['__contains__'], out, node)
                        elif isinstance(op, (ast.Eq, ast.NotEq)):
                            self._protocol(ctx, node.left, ['__eq__'], out, node)
                elif isinstance(node, (ast.For, ast.comprehension)):
                    self._protocol(ctx, node.iter, ['__iter__'], out, node.iter)
                elif isinstance(node, ast.With):
                    for item in node.items:
                        self._protocol(ctx, item.context_expr, ['__enter__', '__exit__'], out, item.context_expr)
                elif isinstance(node, ast.FormattedValue):
                    self._protocol(ctx, node.value, ['__repr__'] if node.conversion == ord('r') else ['__format__', '__str__'], out, node)
                elif isinstance(node, (ast.If, ast.While, ast.IfExp)):
                    self._protocol(ctx, node.test, ['__bool__', '__len__'], out, node.test, first_only=True)
        return out

    def _protocol(self, ctx, expr, names, out, node, first_only=False):
        T = self.typer
        exact = self._is_exact_receiver(expr, ctx)
        for t in T.expr(expr, ctx):
            if t[0] != 'inst':
                continue
            classes = [t[1]] if exact else t[1].all_subclasses()
            for c in classes:
                for n in names:
                    m = c.lookup(n)
                    if m is not None:
                        self.sites['protocol'] += 1
                        out.append(Edge(ctx, node, Target('func', m, ('inst', c), via=f'protocol:{n}'), f'protocol:{n}', exact))
                        if first_only or n in ('__format__',):
                            break

    # ------------------------------------------------------------------ queries
    def succ(self, ctx: Ctx) -> List[Edge]:
        return self.edges.get(ctx, [])

    def find_path(self, roots: Iterable[Ctx], is_goal: Callable[[Edge], bool], edge_filter: Callable[[Edge], bool] = None) -> Optional[List[Edge]]:
        """Shortest edge path from any root to the first edge satisfying is_goal."""
        q = deque()
        seen = set()
        for r in roots:
            q.append((r, []))
            seen.add(r)
        while q:
            ctx, path = q.popleft()
            for e in self.succ(ctx):
                if edge_filter is not None and not edge_filter(e):
                    continue
                if is_goal(e):
                    return path + [e]
                d = e.dst
                if d is not None and d not in seen:
                    seen.add(d)
                    q.append((d, path + [e]))
        return None

    def reachable(self, roots: Iterable[Ctx], edge_filter: Callable[[Edge], bool] = None) -> set:
        seen = set(roots)
        q = deque(seen)
        while q:
            ctx = q.popleft()
            for e in self.succ(ctx):
                if edge_filter is not None and not edge_filter(e):
                    continue
                d = e.dst
                if d is not None and d not in seen:
                    seen.add(d)
                    q.append(d)
        return seen

    def stats(self):
        s = dict(self.sites)
        s['contexts'] = len(self.edges)
        s['edges'] = sum(len(v) for v in self.edges.values())
        return s


def show_path(path: List[Edge]) -> List[str]:
    out = []
    for e in path:
        out.append(f'{e.src.label}  --[{e.kind}] {e.where()} `{src(e.node)[:70]}`-->  {e.target.ctx.label if e.target.ctx else e.target}')
    return out
