"""Obligations, verdicts, known findings, evidence files."""
from __future__ import annotations

import hashlib
import json
import os
import time
from typing import Dict, List, Optional

from .model import AnalysisError

VERIF = os.path.dirname(os.path.dirname(os.path.abspath(__file__)))
EVIDENCE_DIR = os.path.join(VERIF, 'evidence')
REPLAY_DIR = os.path.join(EVIDENCE_DIR, 'replay')
KNOWN_FILE = os.path.join(VERIF, 'known_findings.json')

DISCHARGED, VIOLATION, UNDECIDED, KNOWN = 'discharged', 'VIOLATION', 'UNDECIDED', 'KNOWN-FINDING'


def load_known() -> List[dict]:
    if not os.path.exists(KNOWN_FILE):
        return []
    with open(KNOWN_FILE) as f:
        return json.load(f).get('findings', [])


class Obligation:
    __slots__ = ('rule', 'construct', 'status', 'detail', 'witness', 'key', 'nontrivial', 'where')

    def __init__(self, rule, construct, status, detail='', witness=None, key=None, nontrivial=True, where=None):
        self.rule = rule
        self.construct = construct
        self.status = status
        self.detail = detail
        self.witness = witness
        self.key = key
        self.nontrivial = nontrivial
        self.where = where

    def as_dict(self):
        d = {'rule': self.rule, 'construct': self.construct, 'status': self.status}
        if self.where:
            d['where'] = self.where
        if self.detail:
            d['detail'] = self.detail
        if self.witness is not None:
            d['witness'] = self.witness
        if self.key is not None:
            d['key'] = self.key
        return d


class Report:
    def __init__(self, prop_id: str, tier: str = 'quick', quiet=False):
        self.prop = prop_id
        self.tier = tier
        self.obs: List[Obligation] = []
        self.floors: Dict[str, int] = {}
        self.notes: List[str] = []
        self.t0 = time.time()
        self.extra: Dict[str, object] = {}
        self.quiet = quiet
        self.rules_text: Dict[str, str] = {}
        self.trusted: List[str] = []
        self.assumptions: List[str] = []
        self.explanation = ''
        self.validation: Optional[dict] = None

    # ---- recording
    def rule(self, rid: str, text: str, floor: int = 1):
        """Declare a rule with its instance floor (obligations that must be looked at)."""
        self.rules_text[rid] = text
        self.floors[rid] = floor

    def ok(self, rule, construct, detail='', witness=None, nontrivial=True, where=None):
        self.obs.append(Obligation(rule, construct, DISCHARGED, detail, witness, None, nontrivial, where))

    def violation(self, rule, construct, key, detail='', witness=None, where=None):
        self.obs.append(Obligation(rule, construct, VIOLATION, detail, witness, key, True, where))

    def undecided(self, rule, construct, detail='', witness=None, where=None):
        self.obs.append(Obligation(rule, construct, UNDECIDED, detail, witness, None, True, where))

    def check(self, cond: bool, rule, construct, key, detail_ok='', detail_bad='', witness=None, where=None):
        if cond:
            self.ok(rule, construct, detail_ok, witness, where=where)
        else:
            self.violation(rule, construct, key, detail_bad, witness, where=where)
        return cond

    def note(self, text: str):
        self.notes.append(text)

    def require(self, cond, msg: str):
        if not cond:
            raise AnalysisError(msg)

    # ---- finishing
    def finish(self) -> int:
        known = [k for k in load_known() if k.get('property') == self.prop and k.get('status') == 'known']
        # instance floors
        counts: Dict[str, int] = {}
        for o in self.obs:
            counts[o.rule] = counts.get(o.rule, 0) + 1
        for rid, floor in self.floors.items():
            if counts.get(rid, 0) < floor:
                raise AnalysisError(f'rule {rid} looked at {counts.get(rid, 0)} instance(s), floor is {floor}: an anchor vanished or the rule no longer matches')
        n_viol = 0
        lines = []
        os.makedirs(REPLAY_DIR, exist_ok=True)
        for f in os.listdir(REPLAY_DIR):
            if f.startswith(self.prop + '-'):
                os.remove(os.path.join(REPLAY_DIR, f))
        k_idx = 0
        for o in self.obs:
            if o.status != VIOLATION:
                continue
            match = next((k for k in known if k.get('rule') == o.rule and k.get('construct') == o.construct and k.get('key') == o.key), None)
            if match is not None:
                o.status = KNOWN
                lines.append(f'KNOWN-FINDING: property={self.prop} {match.get("what", o.detail)}')
                continue
            k_idx += 1
            n_viol += 1
            path = os.path.join(REPLAY_DIR, f'{self.prop}-{k_idx}.json')
            with open(path, 'w') as f:
                json.dump({'property': self.prop, **o.as_dict()}, f, indent=1, default=str)
            lines.append(f'VIOLATION property={self.prop} replay={path}')
            lines.append(f'  rule {o.rule}  construct {o.construct}  at {o.where or "?"}')
            lines.append(f'  {o.detail}')
            if o.witness:
                w = o.witness if isinstance(o.witness, list) else [o.witness]
                for wl in w[:25]:
                    lines.append(f'    {wl}')
        n_und = sum(1 for o in self.obs if o.status == UNDECIDED)
        for o in self.obs:
            if o.status == UNDECIDED:
                lines.append(f'UNDECIDED property={self.prop} rule={o.rule} construct={o.construct}: {o.detail}')
        self._write_evidence(n_viol, n_und)
        if not self.quiet:
            n_dis = sum(1 for o in self.obs if o.status == DISCHARGED)
            n_known = sum(1 for o in self.obs if o.status == KNOWN)
            print(f'{self.prop} [{self.tier}] obligations={len(self.obs)} discharged={n_dis} known-findings={n_known} undecided={n_und} violations={n_viol} ({time.time() - self.t0:.2f}s)')
            for rid in sorted(counts):
                bad = sum(1 for o in self.obs if o.rule == rid and o.status == VIOLATION)
                print(f'  {rid}: {counts[rid]} instance(s){"  <-- " + str(bad) + " violation(s)" if bad else ""}  {self.rules_text.get(rid, "")[:110]}')
            for ln in lines:
                print(ln)
        return 1 if n_viol else 0

    def _write_evidence(self, n_viol, n_und):
        os.makedirs(EVIDENCE_DIR, exist_ok=True)
        distinct = set()
        for o in self.obs:
            if o.nontrivial:
                distinct.add((o.rule, o.construct, json.dumps(o.witness, default=str, sort_keys=True)[:400] if o.witness is not None else o.detail))
        samples = []
        seen_rules = set()
        for o in self.obs:
            if o.rule not in seen_rules or o.status != DISCHARGED:
                seen_rules.add(o.rule)
                samples.append(o.as_dict())
        ev = {
            'property_id': self.prop,
            'tier': self.tier,
            'seed': int(os.environ.get('VERIF_SEED', '0') or 0),
            'level': 'other',
            'coverage': {
                'explanation': self.explanation,
                'obligations': len(self.obs),
                'discharged': sum(1 for o in self.obs if o.status == DISCHARGED),
                'known_findings': sum(1 for o in self.obs if o.status == KNOWN),
                'undecided': n_und,
                'evaluations': len(self.obs),
                'distinct_nontrivial': len(distinct),
                'rule': 'one evaluation = one rule instance (a call site, path, class, or term) decided on the current source; non-trivial = its '
                        'proof involved a CFG path, call chain, effect summary or symbolic term (not a constant lookup); distinct by (rule, construct, witness)',
                'rules': {rid: {'text': txt, 'instances': sum(1 for o in self.obs if o.rule == rid), 'floor': self.floors.get(rid)} for rid, txt in self.rules_text.items()},
                'samples': samples[:60],
                'checker_cmd': f'/venv/bin/python -m tcverif check {self.prop}' + (' --thorough' if self.tier == 'thorough' else ''),
                'trusted_base': self.trusted,
                'exhaustive': False,
                **self.extra,
            },
            'assumptions': self.assumptions,
            'wall_s': round(time.time() - self.t0, 3),
            'violations': n_viol,
        }
        if self.notes:
            ev['coverage']['notes'] = self.notes
        if self.validation is not None:
            ev['coverage']['checker_validation'] = self.validation
        with open(os.path.join(EVIDENCE_DIR, f'{self.prop}.json'), 'w') as f:
            json.dump(ev, f, indent=1, default=str)


def key_of(*parts) -> str:
    """Stable finding key from normalised text parts (never line numbers)."""
    return ' | '.join(str(p) for p in parts)
