"""Checker validation: seeded breaks (must be reported) and benign variants (must stay silent).

Variants are source edits applied in memory (Program overlay) - nothing is written anywhere.  Results never decide
a check's exit code; they are reported in evidence (thorough tier) and by `python -m tcverif.selftest`.
"""
from __future__ import annotations

import os
import sys
import time
from concurrent.futures import ProcessPoolExecutor
from typing import Dict, List, Optional, Tuple

from .core import REPO

SRC = 'src/taskchain/'


def _apply(root: str, edits: List[Tuple[str, str, str]]) -> Optional[Dict[str, str]]:
    overlay: Dict[str, str] = {}
    for rel, old, new in edits:
        path = os.path.join(root, SRC + rel)
        rp = SRC + rel
        s = overlay.get(rp)
        if s is None:
            with open(path, encoding='utf-8') as f:
                s = f.read()
        if s.count(old) != 1:
            return None  # operator no longer applies
        overlay[rp] = s.replace(old, new)
    return overlay


def run_variant(args):
    vid, prop, edits, root = args
    from .__main__ import run_check
    overlay = _apply(root, edits)
    if overlay is None:
        return vid, prop, 'n/a', [], ''
    code, R = run_check(prop, False, root=root, overlay=overlay, quiet=True, write=False)
    viol = [(o.rule, o.construct, o.detail[:160]) for o in R.obs if o.status == 'VIOLATION']
    return vid, prop, code, viol, getattr(R, 'error', '')


def run_all(props: Optional[List[str]] = None, root: Optional[str] = None, jobs: int = 16, verbose=True):
    from .variants import BENIGN, MUTANTS
    root = root or REPO
    work = []
    for m in MUTANTS:
        if props and m['prop'] not in props:
            continue
        work.append((m['id'], m['prop'], m['edits'], root))
    for b in BENIGN:
        for p in b['props']:
            if props and p not in props:
                continue
            work.append((b['id'] + '@' + p, p, b['edits'], root))
    t0 = time.time()
    with ProcessPoolExecutor(max_workers=jobs) as ex:
        results = list(ex.map(run_variant, work, chunksize=1))
    by_id = {r[0]: r for r in results}
    summary = {'mutants': 0, 'killed': 0, 'missed': [], 'benign': 0, 'silent': 0, 'false_alarms': [], 'not_applicable': [], 'errors': []}
    for m in MUTANTS:
        if props and m['prop'] not in props:
            continue
        vid, prop, code, viol, err = by_id[m['id']]
        if code == 'n/a':
            summary['not_applicable'].append(vid)
            continue
        summary['mutants'] += 1
        rules = {v[0] for v in viol}
        exp = m.get('expect')
        hit = code == 1 and (exp is None or any(r.startswith(exp) for r in rules))
        if hit:
            summary['killed'] += 1
        else:
            summary['missed'].append({'id': vid, 'exit': code, 'reported': sorted(rules), 'expected': exp, 'error': err})
    for b in BENIGN:
        for p in b['props']:
            if props and p not in props:
                continue
            vid, prop, code, viol, err = by_id[b['id'] + '@' + p]
            if code == 'n/a':
                summary['not_applicable'].append(vid)
                continue
            summary['benign'] += 1
            if code == 0:
                summary['silent'] += 1
            elif code == 2:
                summary['errors'].append({'id': vid, 'error': err})
            else:
                summary['false_alarms'].append({'id': vid, 'reported': viol})
    summary['wall_s'] = round(time.time() - t0, 1)
    if verbose:
        print(f"seeded breaks: {summary['killed']}/{summary['mutants']} reported; benign variants: {summary['silent']}/{summary['benign']} silent; "
              f"{len(summary['not_applicable'])} operator(s) no longer apply; {summary['wall_s']}s")
        for x in summary['missed']:
            print('  MISSED', x)
        for x in summary['false_alarms']:
            print('  FALSE-ALARM', x)
        for x in summary['errors']:
            print('  ERROR', x)
        for x in summary['not_applicable']:
            print('  N/A', x)
    return summary


if __name__ == '__main__':
    props = [a for a in sys.argv[1:] if a.startswith('C')]
    s = run_all(props or None)
    sys.exit(0)


# ---------------------------------------------------------------------------------------------- kept seeded changes
def apply_unified_diff(root: str, diff_text: str):
    """Apply a `git diff` to files under root in memory; returns overlay {relpath: new source} or None if a hunk does not apply."""
    import re
    overlay = {}
    cur = None
    lines = diff_text.splitlines()
    i = 0
    while i < len(lines):
        ln = lines[i]
        if ln.startswith('+++ '):
            path = ln[4:].strip()
            cur = path[2:] if path.startswith(('b/', 'a/')) else path
            if cur not in overlay:
                with open(os.path.join(root, cur), encoding='utf-8') as f:
                    overlay[cur] = f.read().split('\n')
            offset = 0
            i += 1
            continue
        m = re.match(r'@@ -(\d+)(?:,(\d+))? \+(\d+)(?:,(\d+))? @@', ln)
        if m and cur is not None:
            old_start = int(m.group(1))
            i += 1
            old_block, new_block = [], []
            while i < len(lines) and not lines[i].startswith('@@') and not lines[i].startswith('diff --git') and not lines[i].startswith('--- '):
                h = lines[i]
                if h.startswith('\\'):
                    i += 1
                    continue
                if h.startswith('-'):
                    old_block.append(h[1:])
                elif h.startswith('+'):
                    new_block.append(h[1:])
                else:
                    old_block.append(h[1:] if h.startswith(' ') else h)
                    new_block.append(h[1:] if h.startswith(' ') else h)
                i += 1
            src_lines = overlay[cur]
            pos = old_start - 1 + offset
            if src_lines[pos:pos + len(old_block)] != old_block:
                found = [k for k in range(len(src_lines) - len(old_block) + 1) if src_lines[k:k + len(old_block)] == old_block]
                if len(found) != 1:
                    return None
                pos = found[0]
            src_lines[pos:pos + len(old_block)] = new_block
            offset += len(new_block) - len(old_block)
            continue
        i += 1
    return {k: '\n'.join(v) for k, v in overlay.items()}


def run_seeded(props=None, root=None, verbose=True):
    """Run the target property's check against every kept independent seeded change (/verif/seeded/<id>/patch.diff)."""
    import json
    from .__main__ import run_check
    root = root or REPO
    here = os.path.dirname(os.path.dirname(os.path.abspath(__file__)))
    sd = os.path.join(here, 'seeded')
    out = {'total': 0, 'reported': 0, 'missed': [], 'not_applicable': []}
    for sid in sorted(os.listdir(sd)) if os.path.isdir(sd) else []:
        mp = os.path.join(sd, sid, 'meta.json')
        if not os.path.exists(mp):
            continue
        prop = json.load(open(mp))['property']
        if props and prop not in props:
            continue
        ov = apply_unified_diff(root, open(os.path.join(sd, sid, 'patch.diff')).read())
        if ov is None:
            out['not_applicable'].append(sid)
            continue
        out['total'] += 1
        code, R = run_check(prop, False, root=root, overlay=ov, quiet=True, write=False)
        rules = sorted({o.rule for o in R.obs if o.status == 'VIOLATION'})
        if code == 1:
            out['reported'] += 1
        else:
            out['missed'].append({'id': sid, 'exit': code, 'error': getattr(R, 'error', '')})
        if verbose:
            print(sid, 'exit', code, rules)
    return out


def _benign_job(args):
    bid, prop, root = args
    from .__main__ import run_check
    here = os.path.dirname(os.path.dirname(os.path.abspath(__file__)))
    ov = apply_unified_diff(root, open(os.path.join(here, 'benign', bid, 'patch.diff')).read())
    if ov is None:
        return bid, prop, 'n/a', []
    code, R = run_check(prop, False, root=root, overlay=ov, quiet=True, write=False)
    det = [(o.rule, o.construct[:60], o.detail[:120]) for o in R.obs if o.status == 'VIOLATION'] or ([('ANALYSIS-ERROR', getattr(R, 'error', '')[:160], '')] if code == 2 else [])
    return bid, prop, code, det


def run_benign(props=None, ids=None, root=None, jobs=16, verbose=True):
    """Every check against every kept independent behaviour-preserving refactoring (/verif/benign/<id>/patch.diff): all must stay silent."""
    root = root or REPO
    here = os.path.dirname(os.path.dirname(os.path.abspath(__file__)))
    bd = os.path.join(here, 'benign')
    allprops = sorted('C' + f[1:-3] for f in os.listdir(os.path.join(here, 'tcverif', 'rules')) if f.startswith('c') and f[1:-3].isdigit())
    work = []
    for bid in sorted(os.listdir(bd)) if os.path.isdir(bd) else []:
        if ids and not any(bid == i or bid.startswith(i + '-') for i in ids):
            continue
        for p in (props or allprops):
            work.append((bid, p, root))
    with ProcessPoolExecutor(max_workers=jobs) as ex:
        res = list(ex.map(_benign_job, work, chunksize=2))
    bad = [r for r in res if r[2] not in (0, 'n/a')]
    out = {'runs': len(res), 'silent': sum(1 for r in res if r[2] == 0), 'alarms': [{'id': r[0], 'property': r[1], 'exit': r[2], 'what': r[3][:3]} for r in bad],
           'not_applicable': sorted({r[0] for r in res if r[2] == 'n/a'})}
    if verbose:
        print(f"benign refactorings: {out['silent']}/{out['runs']} (refactoring x check) silent; {len(bad)} alarm(s)")
        for a in out['alarms']:
            print('  ALARM', a['id'], a['property'], a['exit'], a['what'])
    return out


def run_regressions(root=None, verbose=True, props=None):
    """Every repaired defect returns when its fix is reverted (regressions/<fix>.reverse.diff): the check of each
    property recorded for that commit in known_findings.json must report it again."""
    import json
    from .__main__ import run_check
    root = root or REPO
    here = os.path.dirname(os.path.dirname(os.path.abspath(__file__)))
    fixed = [k for k in json.load(open(os.path.join(here, 'known_findings.json'))).get('findings', []) if k.get('status') == 'fixed']
    out = {'total': 0, 'reported': 0, 'missed': [], 'not_applicable': []}
    rd = os.path.join(here, 'regressions')
    for fn in sorted(os.listdir(rd)):
        if not fn.endswith('.reverse.diff'):
            continue
        commit = fn.split('-', 1)[1].split('.')[0]
        props_ = sorted({k['property'] for k in fixed if k.get('commit', '').startswith(commit[:7])})
        props_here = [p for p in props_ if props is None or p in props]
        if props is not None and not props_here:
            continue
        ov = apply_unified_diff(root, open(os.path.join(rd, fn)).read())
        if ov is None or not props_:
            out['not_applicable'].append(fn)
            continue
        for p in props_here:
            out['total'] += 1
            code, R = run_check(p, False, root=root, overlay=ov, quiet=True, write=False)
            if code == 1:
                out['reported'] += 1
            else:
                out['missed'].append({'fix': fn, 'property': p, 'exit': code, 'error': getattr(R, 'error', '')})
            if verbose:
                print(fn, p, 'exit', code, sorted({o.rule for o in R.obs if o.status == 'VIOLATION'}))
    return out
