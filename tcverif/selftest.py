"""Checker validation: seeded breaks (must be reported) and benign variants (must stay silent).

Variants are source edits applied in memory (Program overlay) - nothing is written anywhere.  Results never decide
a check's exit code; they are reported in evidence (thorough tier) and by `python -m tcverif.selftest`.
"""
from __future__ import annotations

import os
import sys
import time
from concurrent.futures import ProcessPoolExecutor
from typing import Dict, List, Optional, Tuple

from .core import REPO

SRC = 'src/taskchain/'


def _apply(root: str, edits: List[Tuple[str, str, str]]) -> Optional[Dict[str, str]]:
    overlay: Dict[str, str] = {}
    for rel, old, new in edits:
        path = os.path.join(root, SRC + rel)
        rp = SRC + rel
        s = overlay.get(rp)
        if s is None:
            with open(path, encoding='utf-8') as f:
                s = f.read()
        if s.count(old) != 1:
            return None  # operator no longer applies
        overlay[rp] = s.replace(old, new)
    return overlay


def run_variant(args):
    vid, prop, edits, root = args
    from .__main__ import run_check
    overlay = _apply(root, edits)
    if overlay is None:
        return vid, prop, 'n/a', [], ''
    code, R = run_check(prop, False, root=root, overlay=overlay, quiet=True, write=False)
    viol = [(o.rule, o.construct, o.detail[:160]) for o in R.obs if o.status == 'VIOLATION']
    return vid, prop, code, viol, getattr(R, 'error', '')


def run_all(props: Optional[List[str]] = None, root: Optional[str] = None, jobs: int = 16, verbose=True):
    from .variants import BENIGN, MUTANTS
    root = root or REPO
    work = []
    for m in MUTANTS:
        if props and m['prop'] not in props:
            continue
        work.append((m['id'], m['prop'], m['edits'], root))
    for b in BENIGN:
        for p in b['props']:
            if props and p not in props:
                continue
            work.append((b['id'] + '@' + p, p, b['edits'], root))
    t0 = time.time()
    with ProcessPoolExecutor(max_workers=jobs) as ex:
        results = list(ex.map(run_variant, work, chunksize=1))
    by_id = {r[0]: r for r in results}
    summary = {'mutants': 0, 'killed': 0, 'missed': [], 'benign': 0, 'silent': 0, 'false_alarms': [], 'not_applicable': [], 'errors': []}
    for m in MUTANTS:
        if props and m['prop'] not in props:
            continue
        vid, prop, code, viol, err = by_id[m['id']]
        if code == 'n/a':
            summary['not_applicable'].append(vid)
            continue
        summary['mutants'] += 1
        rules = {v[0] for v in viol}
        exp = m.get('expect')
        hit = code == 1 and (exp is None or any(r.startswith(exp) for r in rules))
        if hit:
            summary['killed'] += 1
        else:
            summary['missed'].append({'id': vid, 'exit': code, 'reported': sorted(rules), 'expected': exp, 'error': err})
    for b in BENIGN:
        for p in b['props']:
            if props and p not in props:
                continue
            vid, prop, code, viol, err = by_id[b['id'] + '@' + p]
            if code == 'n/a':
                summary['not_applicable'].append(vid)
                continue
            summary['benign'] += 1
            if code == 0:
                summary['silent'] += 1
            elif code == 2:
                summary['errors'].append({'id': vid, 'error': err})
            else:
                summary['false_alarms'].append({'id': vid, 'reported': viol})
    summary['wall_s'] = round(time.time() - t0, 1)
    if verbose:
        print(f"seeded breaks: {summary['killed']}/{summary['mutants']} reported; benign variants: {summary['silent']}/{summary['benign']} silent; "
              f"{len(summary['not_applicable'])} operator(s) no longer apply; {summary['wall_s']}s")
        for x in summary['missed']:
            print('  MISSED', x)
        for x in summary['false_alarms']:
            print('  FALSE-ALARM', x)
        for x in summary['errors']:
            print('  ERROR', x)
        for x in summary['not_applicable']:
            print('  N/A', x)
    return summary


if __name__ == '__main__':
    props = [a for a in sys.argv[1:] if a.startswith('C')]
    s = run_all(props or None)
    sys.exit(0)
