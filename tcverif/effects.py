"""Primitive effects and interprocedural effect collection with symbolic targets.

An Event is one primitive operation found in a function (or in a callee reached from it):
  kind   : FS_READ | FS_WRITE | FS_MKDIR | FS_DELETE | FS_RENAME | FS_COPY | RUN | USER | LOCK | LOGH_ADD | LOGH_REMOVE
  target : symbolic path term (terms.py) relative to the *root* function's receiver/parameters (dst for RENAME/COPY)
  source : second path term for RENAME/COPY (src)
  site   : AST node of the primitive call;  root_node : AST node in the root function through which it is reached
  chain  : call chain (labels) from the root to the primitive
"""
from __future__ import annotations

import ast
from typing import Dict, List, Optional, Tuple

from .model import FuncInfo, _dotted, src
from .terms import Sym, _Env, _Frame, dag_nodes, normalise, opaque, pretty, term_hash
from .types import Ctx, Target, Typer

FS_MUTATING = {'FS_WRITE', 'FS_MKDIR', 'FS_DELETE', 'FS_RENAME', 'FS_COPY'}

# external function -> (kind, index of path arg, index of second path arg)
_EXT_FUNCS = {
    'shutil.rmtree': ('FS_DELETE', 0, None),
    'shutil.move': ('FS_RENAME', 1, 0),
    'shutil.copy': ('FS_COPY', 1, 0),
    'shutil.copy2': ('FS_COPY', 1, 0),
    'shutil.copyfile': ('FS_COPY', 1, 0),
    'shutil.copytree': ('FS_COPY', 1, 0),
    'os.replace': ('FS_RENAME', 1, 0),
    'os.rename': ('FS_RENAME', 1, 0),
    'os.remove': ('FS_DELETE', 0, None),
    'os.unlink': ('FS_DELETE', 0, None),
    'os.rmdir': ('FS_DELETE', 0, None),
    'os.makedirs': ('FS_MKDIR', 0, None),
    'os.mkdir': ('FS_MKDIR', 0, None),
    'os.symlink': ('FS_WRITE', 1, None),
    'numpy.save': ('FS_WRITE', 0, None),
    'numpy.savez': ('FS_WRITE', 0, None),
    'numpy.savetxt': ('FS_WRITE', 0, None),
    'numpy.load': ('FS_READ', 0, None),
    'pandas.read_pickle': ('FS_READ', 0, None),
    'pandas.read_csv': ('FS_READ', 0, None),
    'logging.FileHandler': ('FS_WRITE', 0, None),
    'os.path.exists': ('FS_READ', 0, None),
}
# method on a Path receiver -> kind (dst = receiver; RENAME: receiver is the source, arg0 the destination)
_PATH_METHODS = {
    'write_text': 'FS_WRITE', 'write_bytes': 'FS_WRITE', 'touch': 'FS_WRITE', 'symlink_to': 'FS_WRITE', 'hardlink_to': 'FS_WRITE',
    'mkdir': 'FS_MKDIR', 'unlink': 'FS_DELETE', 'rmdir': 'FS_DELETE', 'rename': 'FS_RENAME', 'replace': 'FS_RENAME',
    'exists': 'FS_READ', 'is_file': 'FS_READ', 'is_dir': 'FS_READ', 'is_symlink': 'FS_READ', 'stat': 'FS_READ', 'glob': 'FS_READ',
    'iterdir': 'FS_READ', 'rglob': 'FS_READ', 'read_text': 'FS_READ', 'read_bytes': 'FS_READ',
}
# method names that write to a path argument whatever the (unknown / third-party) receiver is
_WRITER_METHOD_NAMES = {'to_pickle': 0, 'to_csv': 0, 'to_parquet': 0, 'to_json': 0, 'to_hdf': 0, 'savefig': 0, 'to_feather': 0, 'tofile': 0}


_MUTATORS = {'append', 'extend', 'update', 'add', 'setdefault', 'pop', 'popitem', 'clear', 'remove', 'discard', 'insert', 'sort', 'reverse', '__setitem__'}


def _store_base(t):
    """(receiver expression, attribute) for an attribute store `recv.attr = ...` or `recv.attr[k] = ...`."""
    if isinstance(t, ast.Attribute):
        return t.value, t.attr
    if isinstance(t, ast.Subscript) and isinstance(t.value, ast.Attribute):
        return t.value.value, t.value.attr + '[]'
    return None, None


def _mode_of(call: ast.Call, pos: int) -> Optional[str]:
    m = None
    if len(call.args) > pos and isinstance(call.args[pos], ast.Constant) and isinstance(call.args[pos].value, str):
        m = call.args[pos].value
    for kw in call.keywords:
        if kw.arg == 'mode' and isinstance(kw.value, ast.Constant) and isinstance(kw.value.value, str):
            m = kw.value.value
    if m is None and len(call.args) <= pos and not any(kw.arg == 'mode' for kw in call.keywords):
        return 'r'
    return m  # None = dynamic mode


def _strip_str(node):
    """str(x) / Path(x) / os.fspath(x) wrappers around a path expression."""
    while isinstance(node, ast.Call) and isinstance(node.func, ast.Name) and node.func.id in ('str', 'Path', 'fspath') and len(node.args) == 1:
        node = node.args[0]
    return node


class Event:
    __slots__ = ('kind', 'target', 'source', 'site', 'root_node', 'chain', 'detail', 'ctx')

    def __init__(self, kind, target, source, site, root_node, chain, detail='', ctx=None):
        self.kind = kind
        self.target = target
        self.source = source
        self.site = site
        self.root_node = root_node
        self.chain = chain
        self.detail = detail
        self.ctx = ctx

    def describe(self) -> str:
        t = f' {pretty(self.target)}' if self.target is not None else ''
        s = f' <- {pretty(self.source)}' if self.source is not None else ''
        via = (' via ' + ' > '.join(self.chain)) if self.chain else ''
        return f'{self.kind}{t}{s} at `{src(self.site)[:70]}`{via}'

    def __repr__(self):
        return f'<{self.describe()}>'


def strip_path_wrappers(t):
    """Path(x) ~ x ; str(x) ~ x for path identity."""
    while isinstance(t, tuple) and ((t[0] == 'call' and t[1] in ('Path', 'pathlib.Path', 'str') and len(t[2]) == 1) or t[0] == 'str'):
        t = t[2][0] if t[0] == 'call' else t[1]
    return t


class Effects:
    def __init__(self, typer: Typer, sym: Sym, max_depth=8):
        self.typer = typer
        self.sym = sym
        self.max_depth = max_depth
        self.unclassified: List[Tuple[Ctx, ast.AST]] = []

    # ------------------------------------------------------------------ primitive classification
    def primitive(self, call: ast.Call, ctx: Ctx) -> List[Tuple[str, Optional[ast.AST], Optional[ast.AST], str]]:
        """[(kind, path expr, second path expr, detail)] for a call that is a primitive operation."""
        out = []
        T = self.typer
        tgs = T.call_targets(call, ctx)
        for tg in tgs:
            if tg.kind != 'ext':
                continue
            name = tg.name
            if name in _EXT_FUNCS:
                kind, i, j = _EXT_FUNCS[name]
                a = call.args[i] if len(call.args) > i else None
                b = call.args[j] if j is not None and len(call.args) > j else None
                out.append((kind, _strip_str(a) if a is not None else None, _strip_str(b) if b is not None else None, name))
            elif name == 'builtins.open':
                mode = _mode_of(call, 1)
                kind = 'FS_READ' if mode is not None and not any(c in mode for c in 'wax+') else 'FS_WRITE'
                out.append((kind, _strip_str(call.args[0]) if call.args else None, None, f'open mode={mode}'))
            elif name == 'h5py.File':
                mode = _mode_of(call, 1)
                kind = 'FS_READ' if mode == 'r' else 'FS_WRITE'
                out.append((kind, _strip_str(call.args[0]) if call.args else None, None, f'h5py.File mode={mode}'))
            elif name.startswith('Path.') and isinstance(call.func, ast.Attribute):
                m = name.split('.', 1)[1]
                recv = call.func.value
                if m == 'open':
                    mode = _mode_of(call, 0)
                    kind = 'FS_READ' if mode is not None and not any(c in mode for c in 'wax+') else 'FS_WRITE'
                    out.append((kind, recv, None, f'Path.open mode={mode}'))
                elif m in _PATH_METHODS:
                    kind = _PATH_METHODS[m]
                    if kind == 'FS_RENAME':
                        out.append((kind, _strip_str(call.args[0]) if call.args else None, recv, f'Path.{m}'))
                    else:
                        out.append((kind, recv, None, f'Path.{m}'))
        # writer-like method names on unknown / third-party receivers
        if isinstance(call.func, ast.Attribute) and call.func.attr in _WRITER_METHOD_NAMES and not any(t.kind == 'func' for t in tgs):
            i = _WRITER_METHOD_NAMES[call.func.attr]
            if len(call.args) > i:
                out.append(('FS_WRITE', _strip_str(call.args[i]), None, f'.{call.func.attr}()'))
        # logging handlers
        if isinstance(call.func, ast.Attribute) and call.func.attr in ('addHandler', 'removeHandler') and call.args:
            out.append(('LOGH_ADD' if call.func.attr == 'addHandler' else 'LOGH_REMOVE', call.args[0], None, src(call.func.value)))
        return out

    # ------------------------------------------------------------------ collection (memoised summaries)
    def collect(self, ctx: Ctx, self_term=('self',), kinds=None) -> List[Event]:
        """All events reachable from ctx.  Targets are terms over ctx's receiver (`self`), parameters ('p', name)
        and single-assignment locals, callee holes substituted by the caller's argument terms."""
        events = self.summary(ctx)
        if self_term != ('self',):
            events = [self._subst_event(e, {('self',): self_term}, None, None) for e in events]
        if kinds is not None:
            events = [e for e in events if e.kind in kinds]
        return events

    def _is_user_hook(self, f: FuncInfo) -> bool:
        return self.sym._is_user_hook(f)

    def summary(self, ctx: Ctx) -> List[Event]:
        memo = self.__dict__.setdefault('_memo', {})
        if ctx in memo:
            return memo[ctx]
        stack = self.__dict__.setdefault('_stack', [])
        if ctx in stack or len(stack) > 40:
            self._cuts = getattr(self, '_cuts', 0) + 1
            return []
        cuts_before = getattr(self, '_cuts', 0)
        stack.append(ctx)
        try:
            events = self._summarise(ctx)
        finally:
            stack.pop()
        # de-duplicate: same primitive site, same target
        seen = set()
        out = []
        for e in events:
            k = (e.kind, term_hash(e.target) if e.target is not None else None, term_hash(e.source) if e.source is not None else None, id(e.site), e.detail)
            if k in seen:
                continue
            seen.add(k)
            out.append(e)
        # a summary computed while a recursion cut happened below it is partial: cache it only at top level
        if not stack or getattr(self, '_cuts', 0) == cuts_before:
            memo[ctx] = out
        return out

    def _summarise(self, ctx: Ctx) -> List[Event]:
        from .callgraph import is_exact_receiver
        T = self.typer
        f = ctx.func
        events: List[Event] = []
        for node in T.own_nodes(f):
            if isinstance(node, ast.Call):
                for kind, pexpr, pexpr2, detail in self.primitive(node, ctx):
                    t = self._term(pexpr, ctx) if pexpr is not None else None
                    t2 = self._term(pexpr2, ctx) if pexpr2 is not None else None
                    events.append(Event(kind, t, t2, node, node, [], detail, ctx))
                tgs = T.call_targets(node, ctx)
                recv_expr = node.func.value if isinstance(node.func, ast.Attribute) else None
                exact = recv_expr is not None and is_exact_receiver(T, recv_expr, ctx)
                mname = node.func.attr if isinstance(node.func, ast.Attribute) else None
                for tg in tgs:
                    if tg.kind == 'func':
                        for t in self._expand(tg, exact or recv_expr is None, mname):
                            events.extend(self._enter(t, node, recv_expr, ctx, 'call'))
                    elif tg.kind == 'ctor':
                        init = tg.cls.lookup('__init__')
                        if init is not None:
                            events.extend(self._enter(Target('func', init, ('inst', tg.cls)), node, None, ctx, 'ctor'))
                    elif tg.kind == 'unknown' and isinstance(node.func, ast.Name):
                        events.append(Event('USER', None, None, node, node, [], f'call of `{node.func.id}`', ctx))
            elif isinstance(node, ast.Attribute) and isinstance(node.ctx, ast.Load):
                ts, tgs = T.attribute(node, ctx)
                exact = is_exact_receiver(T, node.value, ctx)
                for tg in tgs:
                    if tg.via == 'property':
                        for t in self._expand(tg, exact, node.attr):
                            events.extend(self._enter(t, node, node.value, ctx, 'property'))
                    else:
                        events.extend(self._enter(tg, node, node.value, ctx, 'getattr'))
            elif isinstance(node, (ast.With, ast.AsyncWith)):
                for item in node.items:
                    events.append(Event('LOCK', self._term(item.context_expr, ctx), None, item.context_expr, node, [], 'with', ctx))
            if isinstance(node, ast.Assert):
                events.append(Event('ASSERT', self._term(node.test, ctx), None, node, node, [], 'assert', ctx))
            # ---- state effects: attribute stores / in-place mutation of attributes / module-level mutable state
            if isinstance(node, (ast.Assign, ast.AugAssign, ast.AnnAssign)):
                targets = node.targets if isinstance(node, ast.Assign) else [node.target]
                if not (isinstance(node, ast.AnnAssign) and node.value is None):
                    for t in targets:
                        for tt in (t.elts if isinstance(t, (ast.Tuple, ast.List)) else [t]):
                            base, attr = _store_base(tt)
                            if base is not None:
                                events.append(Event('ATTR_STORE', self._term(base, ctx), None, node, node, [], attr, ctx))
                            elif isinstance(tt, ast.Subscript) and isinstance(tt.value, ast.Name) and self._is_module_mutable(tt.value.id, ctx):
                                events.append(Event('GLOBAL_STATE', None, None, node, node, [], f'store into module-level `{tt.value.id}`', ctx))
            elif isinstance(node, ast.Call) and isinstance(node.func, ast.Attribute) and node.func.attr in _MUTATORS:
                recv = node.func.value
                if isinstance(recv, ast.Attribute):
                    events.append(Event('ATTR_STORE', self._term(recv.value, ctx), None, node, node, [], f'{recv.attr}.{node.func.attr}()', ctx))
                elif isinstance(recv, ast.Name) and self._is_module_mutable(recv.id, ctx):
                    events.append(Event('GLOBAL_STATE', None, None, node, node, [], f'`{recv.id}.{node.func.attr}()` on module-level state', ctx))
            elif isinstance(node, ast.Name) and isinstance(node.ctx, ast.Load) and self._is_module_mutable(node.id, ctx):
                events.append(Event('GLOBAL_STATE', None, None, node, node, [], f'read of module-level mutable `{node.id}`', ctx))
            elif isinstance(node, ast.Call) and isinstance(node.func, ast.Name) and node.func.id == 'setattr' and len(node.args) >= 2:
                events.append(Event('ATTR_STORE', self._term(node.args[0], ctx), None, node, node, [], 'setattr', ctx))
        if any(d.split('.')[-1] in ('lru_cache', 'cache', 'cached_property') for d in f.decorators):
            events.append(Event('GLOBAL_STATE', None, None, f.node, f.node, [], f'`{f.short}` is memoised by functools ({", ".join(f.decorators)})', ctx))
        return events

    def _is_module_mutable(self, name: str, ctx: Ctx) -> bool:
        f = ctx.func
        g = f
        while g is not None:
            if name in self.typer._binding_names(g):
                return False
            g = g.parent
        r = self.typer.prog.resolve_global(f.module, name)
        if r is None or r[0] != 'var':
            return False
        val = r[1].globals.get(r[2])
        if isinstance(val, (ast.Dict, ast.List, ast.Set, ast.DictComp, ast.ListComp, ast.SetComp)):
            return True
        if isinstance(val, ast.Call):
            nm = (_dotted(val.func) or '').split('.')[-1]
            return nm in ('dict', 'list', 'set', 'defaultdict', 'OrderedDict', 'WeakValueDictionary', 'WeakKeyDictionary', 'Counter', 'deque', 'local')
        return False

    def _expand(self, tg: Target, exact: bool, name: Optional[str]) -> List[Target]:
        if exact or tg.recv is None or name is None or tg.func.parent is not None:
            return [tg]
        kind, ci = tg.recv
        out, seen = [], set()
        for c in ci.all_subclasses():
            impl = c.lookup(name)
            if kind == 'cls' and c.metaclass is not None and c.metaclass.lookup(name) is not None and (impl is None or c.metaclass.lookup(name).is_property):
                impl = c.metaclass.lookup(name)
            if impl is None:
                continue
            k = (id(impl), c.qualname)
            if k in seen:
                continue
            seen.add(k)
            out.append(Target('func', impl, (kind, c), via=tg.via))
        return out or [tg]

    def _enter(self, tg: Target, node, recv_expr, ctx, how) -> List[Event]:
        f = tg.func
        label = f'{f.short}' + (f'@{tg.recv[1].short}' if tg.recv else '')
        if self._is_user_hook(f):
            kind = 'RUN' if f.name == 'run' and f.cls is not None and f.cls.name == 'Task' else 'USER'
            return [Event(kind, None, None, node, node, [], f'{f.cls.short if f.cls else ""}.{f.name}', ctx)]
        callee = self.summary(Ctx(f, tg.recv))
        if not callee:
            return []
        # holes the callee's events actually mention: only those argument terms are evaluated
        needed = set()
        for e in callee:
            for t in (e.target, e.source):
                if t is not None:
                    for x in dag_nodes(t):
                        if x == ('self',) or (len(x) == 2 and x[0] == 'p'):
                            needed.add(x)
        mapping = _LazyMap(needed)
        bound = f.cls is not None and f.parent is None and not f.is_static and tg.recv is not None
        params = list(f.pos_params)
        if bound:
            if how == 'ctor':
                mapping[('self',)] = ('new', tg.recv[1].short)
            else:
                is_super = isinstance(recv_expr, ast.Call) and isinstance(recv_expr.func, ast.Name) and recv_expr.func.id == 'super'
                if is_super:
                    mapping[('self',)] = ('self',)
                else:
                    mapping.lazy(('self',), (lambda: self._term(recv_expr, ctx)) if recv_expr is not None else (lambda: opaque('<receiver>')))
            params = params[1:]
        elif f.parent is None:
            mapping[('self',)] = opaque('<no receiver>')
        passed = set()
        if isinstance(node, ast.Call) and how in ('call', 'ctor'):
            for i, a in enumerate(node.args):
                if isinstance(a, ast.Starred):
                    break
                if i < len(params):
                    mapping.lazy(('p', params[i]), lambda a=a: self._term(a, ctx))
                    passed.add(params[i])
            for kw in node.keywords:
                if kw.arg:
                    mapping.lazy(('p', kw.arg), lambda v=kw.value: self._term(v, ctx))
                    passed.add(kw.arg)
        if f.parent is None:
            for p in f.params:
                if p not in passed and ('p', p) not in mapping and not (bound and p == f.pos_params[0]):
                    d = f.param_default(p)
                    mapping.lazy(('p', p), (lambda d=d: self._term(d, Ctx(f, tg.recv))) if d is not None else (lambda p=p: ('unbound', f.short, p)))
        return [self._subst_event(e, mapping, node, label) for e in callee]

    def _subst_event(self, e: Event, mapping, root_node, label) -> Event:
        t = self._subst_norm(e.target, mapping)
        t2 = self._subst_norm(e.source, mapping)
        return Event(e.kind, t, t2, e.site, root_node if root_node is not None else e.root_node, ([label] if label else []) + e.chain, e.detail, e.ctx)

    def _subst_norm(self, t, mapping):
        if t is None:
            return None
        r = _subst_holes(t, mapping)
        if r is t or r == t:
            return t
        return normalise(r)

    def _term(self, expr, ctx: Ctx):
        memo = self.__dict__.setdefault('_term_memo', {})
        k = (ctx, id(expr))
        if k not in memo:
            try:
                memo[k] = self.sym.expr_term(expr, ctx)
            except RecursionError:
                memo[k] = opaque('<recursion>')
        return memo[k]


class _LazyMap(dict):
    """Mapping hole -> term where terms are computed on first use and only for holes in `needed`."""

    def __init__(self, needed):
        super().__init__()
        self.needed = needed
        self.thunks = {}

    def lazy(self, key, thunk):
        if key in self.needed:
            self.thunks[key] = thunk

    def __contains__(self, key):
        return dict.__contains__(self, key) or key in self.thunks

    def __getitem__(self, key):
        if not dict.__contains__(self, key):
            dict.__setitem__(self, key, self.thunks[key]())
        return dict.__getitem__(self, key)


def _subst_holes(t, mapping):
    """Simultaneous substitution of hole leaves (('self',), ('p', name)); replaced terms are not re-visited."""
    memo = {}

    def go(x):
        if not isinstance(x, tuple):
            return x
        i = id(x)
        if i in memo:
            return memo[i][1]
        if x in mapping and (x == ('self',) or (len(x) == 2 and x[0] == 'p')):
            r = mapping[x]
        else:
            r = tuple(go(y) for y in x)
        memo[i] = (x, r)
        return r

    return go(t)


# ---------------------------------------------------------------------- path comparison
def path_parts(t):
    """Decompose a path term into (base term, [name parts])."""
    t = strip_path_wrappers(t)
    names = []
    while isinstance(t, tuple) and t[0] == 'pathjoin':
        names.insert(0, strip_path_wrappers(t[2]))
        t = strip_path_wrappers(t[1])
    return t, names


def _cat_parts(t):
    parts = list(t[1]) if t[0] == 'cat' else [t]
    return [p[1] if p[0] == 'str' else p for p in parts]


def same_path(a, b) -> bool:
    return strip_path_wrappers(a) == strip_path_wrappers(b)


def provably_distinct(a, b) -> bool:
    """True when two path terms cannot denote the same path for any value of their holes:
    same base, same depth, and one component differs by literal text after a common symbolic prefix."""
    ba, na = path_parts(a)
    bb, nb = path_parts(b)
    if ba != bb:
        return False
    if len(na) != len(nb):
        # /x/y vs /x/y/z : different depth under the same base => different paths
        return True
    for x, y in zip(na, nb):
        if x == y:
            continue
        px, py = _cat_parts(x), _cat_parts(y)
        # strip common leading parts
        while px and py and px[0] == py[0]:
            px, py = px[1:], py[1:]
        rest_x = ''.join(p[1] for p in px) if all(p[0] == 'lit' and isinstance(p[1], str) for p in px) else None
        rest_y = ''.join(p[1] for p in py) if all(p[0] == 'lit' and isinstance(p[1], str) for p in py) else None
        if rest_x is not None and rest_y is not None and rest_x != rest_y:
            return True
        return False
    return False


def is_under(a, b) -> bool:
    """Path term a is b or a descendant of b (b / something)."""
    a = strip_path_wrappers(a)
    b = strip_path_wrappers(b)
    while True:
        if a == b:
            return True
        if isinstance(a, tuple) and a[0] == 'pathjoin':
            a = strip_path_wrappers(a[1])
            continue
        return False


def receiver_root(t):
    """Strip attribute / index chains: the object a state effect ultimately lands on."""
    while isinstance(t, tuple) and t and t[0] in ('attr', 'index') :
        t = t[1]
    return t


def is_preexisting(t) -> bool:
    """The receiver of a state effect existed before the analysed call (self, a parameter, or something reached from them)."""
    r = receiver_root(t) if t is not None else None
    return r is not None and (r == ('self',) or (isinstance(r, tuple) and r and r[0] == 'p'))
