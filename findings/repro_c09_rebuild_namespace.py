import tempfile
from pathlib import Path
from taskchain import Config, Task, Chain
class A(Task):
    def run(self) -> int:
        return 1
d = Path(tempfile.mkdtemp())
inner = Config(d, name='inner', namespace='x', data={'tasks': [A]})
outer = Config(d, name='outer', namespace='o', data={'uses': [inner]})
print(sorted(Chain(outer).tasks))
print(sorted(Chain(outer).tasks))
