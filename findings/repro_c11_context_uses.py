"""Context `uses` with placeholders: (a) single string `uses` is never substituted, (b) a substituted entry without ` as <ns>` cannot be loaded."""
import json, os, sys, tempfile, traceback
from pathlib import Path
from taskchain import Config
from taskchain.config import Context

root = Path(tempfile.mkdtemp())
(root / 'ctx').mkdir()
json.dump({'x': 42}, open(root / 'ctx' / 'inner.json', 'w'))
res = {}
# (b) list `uses`, entry has a placeholder and no namespace
json.dump({'uses': ['{CTX_DIR}/inner.json']}, open(root / 'outer_list.json', 'w'))
try:
    c = Context.prepare_context(str(root / 'outer_list.json'), global_vars={'CTX_DIR': str(root / 'ctx')})
    res['list-no-namespace'] = c.data.get('x')
except Exception as e:
    res['list-no-namespace'] = f'{type(e).__name__}: {e}'
# (a) string `uses`
json.dump({'uses': '{CTX_DIR}/inner.json'}, open(root / 'outer_str.json', 'w'))
try:
    c = Context.prepare_context(str(root / 'outer_str.json'), global_vars={'CTX_DIR': str(root / 'ctx')})
    res['string-uses'] = c.data.get('x')
except Exception as e:
    res['string-uses'] = f'{type(e).__name__}: {e}'
# control: with namespace it works
json.dump({'uses': ['{CTX_DIR}/inner.json as ns']}, open(root / 'outer_ns.json', 'w'))
try:
    c = Context.prepare_context(str(root / 'outer_ns.json'), global_vars={'CTX_DIR': str(root / 'ctx')})
    res['list-with-namespace'] = c.for_namespaces.get('ns', {}).get('x')
except Exception as e:
    res['list-with-namespace'] = f'{type(e).__name__}: {e}'
print(json.dumps(res, indent=1))
sys.exit(0 if res == {'list-no-namespace': 42, 'string-uses': 42, 'list-with-namespace': 42} else 1)
