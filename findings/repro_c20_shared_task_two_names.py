"""C20: a pipeline in which one computation appears under two namespaces through two differently named config files with equal
parameters.  Name mode keeps two task objects (two stored results); parameter mode shares one object for both names, and the
migration indexes the parameter-mode chain by `task.fullname` (the first name only): `new_chain[name]` raises KeyError for the
second name and nothing after it is migrated."""
import json, sys, tempfile
from pathlib import Path

d = Path(tempfile.mkdtemp())
(d / 'c20_tasks.py').write_text('''
from taskchain import Task
from taskchain.parameter import Parameter


class Numbers(Task):
    class Meta:
        task_group = 'g'
        parameters = [Parameter('n')]

    def run(self, n) -> list:
        return list(range(n))
''')
sys.path.insert(0, str(d))
from taskchain import Config
from taskchain.utils.migration import migrate_to_parameter_mode

cfg = d / 'cfg'
cfg.mkdir()
for name in ('first', 'second'):
    (cfg / f'{name}.json').write_text(json.dumps({'tasks': ['c20_tasks.Numbers'], 'n': 3}))
(cfg / 'main.json').write_text(json.dumps({'tasks': [], 'uses': [f'{cfg}/first.json as a', f'{cfg}/second.json as b']}))
src, dst = d / 'src', d / 'dst'

old = Config(src, cfg / 'main.json').chain(parameter_mode=False)
for t in old.tasks.values():
    _ = t.value
stored = sorted(n for n, t in old.tasks.items() if t.has_data)
assert stored == ['a::g:numbers', 'b::g:numbers'], stored
try:
    migrate_to_parameter_mode(Config(src, cfg / 'main.json'), dst, dry=False, verbose=False)
except KeyError as e:
    raise AssertionError(f'migration of a valid pipeline failed: KeyError({e})')
new = Config(dst, cfg / 'main.json').chain()
assert sorted(n for n, t in new.tasks.items() if t.has_data) == stored
print('ok')
