import json, sys, tempfile
from pathlib import Path
from taskchain import Config
root = Path(tempfile.mkdtemp())
res = {}
for label, data in (('plain', {'tasks': ['tests.tasks.a.*']}), ('placeholder', {'tasks': ['{PKG}.a.*']}), ('placeholder-str', {'tasks': '{PKG}.a.*'})):
    try:
        cfg = Config(root, name='c', data=dict(data, x=1), global_vars={'PKG': 'tests.tasks'})
        chain = cfg.chain()
        res[label] = sorted(chain.tasks)[:3]
    except Exception as e:
        res[label] = f'{type(e).__name__}: {e}'
print(json.dumps(res, indent=1))
sys.exit(0 if res['plain'] == res['placeholder'] == res['placeholder-str'] else 1)
