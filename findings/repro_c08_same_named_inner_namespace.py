import json, tempfile
from pathlib import Path
from taskchain import Config, Task, Chain

class Tokenize(Task):
    def run(self) -> int:
        return 1

class Train(Task):
    class Meta:
        input_tasks = ['token::tokenize']     # relative to the declaring config's namespace
    def run(self, tokenize) -> int:
        return tokenize + 1

d = Path(tempfile.mkdtemp())
(d / 'inner.json').write_text(json.dumps({'tasks': ['__main__.Tokenize']}))
(d / 'mid.json').write_text(json.dumps({'tasks': ['__main__.Train'], 'uses': [f'{d}/inner.json as token']}))
for outer_ns in ('lang', 'token'):
    (d / f'top_{outer_ns}.json').write_text(json.dumps({'uses': [f'{d}/mid.json as {outer_ns}']}))
    try:
        ch = Chain(Config(d / 'data', d / f'top_{outer_ns}.json'))
        print(outer_ns, 'ok', sorted(ch.tasks), ch[f'{outer_ns}::train'].value)
    except Exception as e:
        print(outer_ns, 'FAILS:', type(e).__name__, e)
