import tempfile
from pathlib import Path
from taskchain import Config, Task, MultiChain

class A(Task):
    class Meta:
        parameters = []
    def run(self) -> int:
        return 1

d = Path(tempfile.mkdtemp())
from taskchain import Parameter
class P(Task):
    class Meta:
        parameters = [Parameter('x')]
    def run(self, x) -> int:
        return x

mc = MultiChain([Config(d, name='c1', data={'tasks': [P], 'x': 1}), Config(d, name='c2', data={'tasks': [P], 'x': 2})])
for c in mc.chains.values():
    _ = c['p'].value
mc.force(name for name in ['p'])          # an Iterable, as the signature allows
print({n: c['p'].is_forced for n, c in mc.chains.items()})
mc2 = MultiChain([Config(d, name='c1', data={'tasks': [P], 'x': 1}), Config(d, name='c2', data={'tasks': [P], 'x': 2})])
mc2.force(['p'])
print({n: c['p'].is_forced for n, c in mc2.chains.items()})
