import json, tempfile
from pathlib import Path
from taskchain import Config
d = Path(tempfile.mkdtemp())
(d/'extra.json').write_text(json.dumps({'b': 2}))
ctx = {'a': 1, 'uses': str(d/'extra.json')}
c1 = Config(d, name='c', data={'a': 0, 'b': 0}, context=ctx)
print('first ', dict(c1.data), 'ctx after:', ctx)
c2 = Config(d, name='c', data={'a': 0, 'b': 0}, context=ctx)
print('second', dict(c2.data))
# Context object reused
from taskchain.config import Context
ctx_o = Context(data={'a': 1, 'uses': str(d/'extra.json')}, name='x')
c3 = Config(d, name='c', data={'a': 0, 'b': 0}, context=ctx_o)
c4 = Config(d, name='c', data={'a': 0, 'b': 0}, context=ctx_o)
print(dict(c3.data), dict(c4.data))
