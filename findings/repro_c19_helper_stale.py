import tempfile
from pathlib import Path
from taskchain import Task, Parameter
from taskchain.utils.testing import create_test_task

class Up(Task):
    class Meta:
        pass
    def run(self) -> int:
        return 0

class T(Task):
    class Meta:
        input_tasks = [Up]
        parameters = [Parameter('k')]
    def run(self, up, k) -> int:
        return up * k

d = Path(tempfile.mkdtemp())
a = create_test_task(T, input_tasks={Up: 2}, parameters={'k': 3}, base_dir=d)
print('first', a.value)
b = create_test_task(T, input_tasks={Up: 5}, parameters={'k': 7}, base_dir=d)
print('second', b.value, 'expected', 35)
