"""C05: `requesting the value again always recovers` - also when run is aborted by a BaseException (KeyboardInterrupt: an interrupted
notebook cell, SystemExit raised by a library).  Pinned tree: Task.data only resets the data object in `except Exception`, so after a
KeyboardInterrupt the task object keeps an empty data object and every later request raises `ValueError: Value ... is not set`."""
import tempfile
from pathlib import Path
from taskchain import Task, Config

CALLS = []


class Slow(Task):
    class Meta:
        task_group = 'g'

    def run(self) -> dict:
        CALLS.append(1)
        if len(CALLS) == 1:
            raise KeyboardInterrupt()
        return {'n': len(CALLS)}


d = Path(tempfile.mkdtemp())
chain = Config(d, name='c', data={'tasks': [Slow]}).chain()
task = chain['slow']
try:
    task.value
except KeyboardInterrupt:
    pass
else:
    raise AssertionError('interrupt swallowed')
assert not task.has_data, 'an aborted run must not leave a visible result'
value = task.value          # must recompute
assert value == {'n': 2}, value
assert Config(d, name='c', data={'tasks': [Slow]}).chain()['slow'].value == {'n': 2}
print('ok')
