#!/venv/bin/python
"""
One-off demonstrations used to TRIAGE what the static rules report on the pinned tree.

This is NOT part of the verification machinery (the checks are static and never run taskchain).
The brief asks that a reported violation is first shown to be a genuine defect "against the real
code"; each function below is the failing input / history / schedule for one defect named in
DESIGN.md section 4.  Run:  /venv/bin/python findings/repro.py [name ...]

Everything is created under a fresh temporary directory that is removed at exit.
"""
import contextlib
import io
import json
import logging
import os
import subprocess
import sys
import tempfile
import textwrap
import threading
from pathlib import Path

TMP = Path(tempfile.mkdtemp(prefix='tc-repro-'))
PKG = TMP / 'rtasks'
PKG.mkdir()
(PKG / '__init__.py').write_text('')
(PKG / 'm.py').write_text(textwrap.dedent('''
    from taskchain import Task, Parameter
    from taskchain.data import DirData
    from taskchain.parameter import AutoParameterObject

    class PxTask(Task):
        class Meta:
            parameters = [Parameter('x')]
        def run(self) -> int:
            return self.params.x

    class UseObjTask(Task):
        class Meta:
            parameters = [Parameter('o')]
        def run(self) -> int:
            return 1

    class Plain:
        def __init__(self, a=1, b=2): self.a, self.b = a, b

    class ZAuto(AutoParameterObject):
        def __init__(self, tags=None, opts=None): self.tags, self.opts = tags, opts

    class OneTask(Task):
        class Meta:
            parameters = [Parameter('x')]
        def run(self, x) -> int:
            return x

    class TwoTask(Task):
        class Meta:
            input_tasks = [OneTask]
        def run(self, one) -> int:
            return one + 1

    class ThreeTask(Task):
        class Meta:
            input_tasks = [TwoTask]
        def run(self, two) -> DirData:
            d = self.get_data_object(); (d.dir / 'f.txt').write_text(str(two)); return d
'''))
sys.path.insert(0, str(TMP))
import warnings  # noqa: E402

warnings.simplefilter('ignore')
from taskchain import Config, Task, Parameter  # noqa: E402


def fresh(name):
    d = TMP / name
    d.mkdir()
    return d


def c01_c09_namespace_sharing():
    """One config file mounted under two namespaces, per-namespace context values."""
    d = fresh('c01')
    json.dump({'tasks': ['rtasks.m.PxTask'], 'x': 1}, (d / 'p.json').open('w'))
    json.dump({'uses': [f'{d}/p.json as n1', f'{d}/p.json as n2']}, (d / 'main.json').open('w'))
    ch = Config(d, d / 'main.json', context={'for_namespaces': {'n1': {'x': 10}, 'n2': {'x': 20}}}).chain()
    print('  values      :', {k: v.value for k, v in ch.tasks.items()}, '(expected n1::px=10, n2::px=20)')
    print('  same object :', ch['n1::px'] is ch['n2::px'])


def c08_alias_lost():
    """Namespaces `xn` and `n`: substring test drops the alias `n::px` from the chain."""
    d = fresh('c08a')
    json.dump({'tasks': ['rtasks.m.PxTask'], 'x': 1}, (d / 'p.json').open('w'))
    json.dump({'uses': [f'{d}/p.json as xn', f'{d}/p.json as n']}, (d / 'main.json').open('w'))
    print('  chain.tasks :', list(Config(d, d / 'main.json').chain().tasks), "(expected both 'xn::px' and 'n::px')")


def c09_conflict_vacuous():
    """Two configs declare the same task in the same namespace: no conflict, order decides."""
    d = fresh('c09')

    class A(Task):
        class Meta:
            parameters = [Parameter('value')]

        def run(self) -> int:
            return self.params['value']

    c1 = Config(d, name='c1', data={'x': 1})
    c2 = Config(d, name='c2', data={'x': 2})
    print('  Config(x=1) != Config(x=2) :', c1 != c2)
    for order in (['a1', 'a2'], ['a2', 'a1']):
        cfgs = {'a1': Config(d, name='a1', data={'tasks': [A], 'value': 1}), 'a2': Config(d, name='a2', data={'tasks': [A], 'value': 2})}
        try:
            ch = Config(d, name='top', data={'uses': [cfgs[n] for n in order]}).chain()
            print(f'  uses order {order}: no error, a.value = {ch.a.value}')
        except ValueError as e:
            print(f'  uses order {order}: ValueError {e}')


def c08_namespace_prefix():
    """Namespace `train`, by-class input whose name starts with `train`."""
    d = fresh('c08b')

    class TrainX(Task):
        def run(self) -> int:
            return 1

    class User(Task):
        class Meta:
            input_tasks = [TrainX]

        def run(self, train_x) -> int:
            return train_x

    try:
        ch = Config(d, name='c', namespace='train', data={'tasks': [TrainX, User]}).chain()
        print('  ok, inputs of train::user :', list(ch['user'].input_tasks))
    except ValueError as e:
        print('  ValueError:', e)


def c10_textual_suffix():
    from taskchain.task import _find_task_full_name

    try:
        print("  _find_task_full_name('a', ['n::a', 'xn::a']) ->", _find_task_full_name('a', ['n::a', 'xn::a']), '(expected KeyError: ambiguous)')
    except KeyError as e:
        print('  KeyError:', e)


def c03_unescaped_str():
    from taskchain.utils.clazz import repr_from_instantiation as r

    print('  repr([\'a\', \'b\'])     :', r(['a', 'b']))
    print('  repr(["a\', \'b"])     :', r(["a', 'b"]), '(same text => same storage key)')


def _key(d, o):
    return Config(d, name='c', data={'tasks': ['rtasks.m.UseObjTask'], 'o': o}).chain().use_obj.name_for_persistence


def c02_order_dependence():
    d = fresh('c02')
    logging.disable(logging.WARNING)
    print('  plain object, kwargs a,b / b,a :', _key(d, {'class': 'rtasks.m.Plain', 'kwargs': {'a': 1, 'b': 2}}), _key(d, {'class': 'rtasks.m.Plain', 'kwargs': {'b': 2, 'a': 1}}))
    print('  auto object, dict arg x,y / y,x:', _key(d, {'class': 'rtasks.m.ZAuto', 'kwargs': {'opts': {'x': 1, 'y': 2}}}), _key(d, {'class': 'rtasks.m.ZAuto', 'kwargs': {'opts': {'y': 2, 'x': 1}}}))
    print('  json dict value x,y / y,x      :', _key(d, {'x': 1, 'y': 2}), _key(d, {'y': 2, 'x': 1}), '(control: equal)')
    for seed in '123':
        out = subprocess.run([sys.executable, __file__, '_c02_child'], env={**os.environ, 'PYTHONHASHSEED': seed}, capture_output=True, text=True)
        print(f'  auto object, set arg, PYTHONHASHSEED={seed}:', out.stdout.strip().splitlines()[-1])
    logging.disable(logging.NOTSET)


def _c02_child():
    from rtasks.m import ZAuto

    print(_key(fresh('c02c'), ZAuto(tags={'alpha', 'beta', 'gamma', 'delta'})))


def c05_nonatomic_save():
    d = fresh('c05')

    class Bad(Task):
        def run(self) -> dict:
            return {'a': object()}

    ch = Config(d, name='bad', data={'tasks': [Bad]}).chain()
    try:
        ch.bad.value
    except Exception as e:
        print('  first request raised :', type(e).__name__)
    ch2 = Config(d, name='bad', data={'tasks': [Bad]}).chain()
    print('  new chain has_data   :', ch2.bad.has_data, '| file size', ch2.bad.data_path.stat().st_size if ch2.bad.data_path.exists() else None, '(expected no visible result)')
    try:
        ch2.bad.value
    except Exception as e:
        print('  second request raised:', type(e).__name__, '(a load error, run is never retried)')


def c11_reprstr_copy():
    import copy
    from taskchain.utils.data import search_and_replace_placeholders

    s = search_and_replace_placeholders('{A}/x', {'A': 1})
    print('  repr original / copy / deepcopy :', repr(s), repr(copy.copy(s)), repr(copy.deepcopy(s)))


def c15_cache_window():
    """Deterministic schedule: forced writer truncates between a reader's locked exists() and its unlocked load."""
    from taskchain import cache as C
    from taskchain.utils import json as tjson

    logging.getLogger('cache').handlers.clear()
    logging.getLogger('cache').addHandler(logging.NullHandler())
    c = C.JsonCache(fresh('c15'))
    print('  initial                 :', c.get_or_compute('k', lambda: 'v0'))
    r_checked, w_truncated, r_loaded = threading.Event(), threading.Event(), threading.Event()
    orig_load, orig_save = C.JsonCache.load_value, C.JsonCache.save_value

    def load(self, filepath, key):
        if threading.current_thread().name == 'R':
            r_checked.set()
            w_truncated.wait(5)
            try:
                return orig_load(self, filepath, key)
            finally:
                r_loaded.set()
        return orig_load(self, filepath, key)

    def save(self, filepath, key, value):  # same steps as JsonCache.save_value, paused after the truncating open
        with filepath.open('w', encoding='utf-8') as f:
            if threading.current_thread().name == 'W':
                w_truncated.set()
                r_loaded.wait(5)
            tjson.dump({'key': key, 'value': value}, f)

    C.JsonCache.load_value, C.JsonCache.save_value = load, save
    try:
        for reader in ('get_or_compute', 'get'):
            for e in (r_checked, w_truncated, r_loaded):
                e.clear()
            calls, res = [], {}

            def R():
                if reader == 'get':
                    res['R'] = c.get('k')
                else:
                    res['R'] = c.get_or_compute('k', lambda: calls.append(1) or 'vR')

            def W():
                r_checked.wait(5)
                res['W'] = c.get_or_compute('k', lambda: 'vW', force=True)

            ts = [threading.Thread(target=R, name='R'), threading.Thread(target=W, name='W')]
            [t.start() for t in ts]
            [t.join() for t in ts]
            print(f'  unforced reader via {reader:<14}:', res['R'], '| reader computer calls:', len(calls), '(expected a stored value and 0 calls)')
    finally:
        C.JsonCache.load_value, C.JsonCache.save_value = orig_load, orig_save


def c18_handler_leak():
    d = fresh('c18')

    class F(Task):
        n = 0

        def run(self) -> int:
            F.n += 1
            self.logger.info('attempt %d' % F.n)
            if F.n == 1:
                raise RuntimeError('x')
            return 1

    ch = Config(d, name='f', data={'tasks': [F]}).chain()
    try:
        ch.f.value
    except RuntimeError:
        pass
    print('  handlers after failed run:', [type(h).__name__ for h in ch.f.logger.handlers])
    print('  retry value', ch.f.value, '| log:', ch.f.log)


def c20_migration():
    from taskchain.utils.migration import migrate_to_parameter_mode

    d = fresh('c20')
    src, dst = d / 'src', d / 'dst'
    src.mkdir()
    dst.mkdir()
    json.dump({'tasks': ['rtasks.m.OneTask', 'rtasks.m.TwoTask', 'rtasks.m.ThreeTask'], 'x': 5}, (d / 'cfg.json').open('w'))
    Config(src, d / 'cfg.json').chain(parameter_mode=False).one.value

    def tree(p):
        return sorted(str(q.relative_to(p)) + ('/' if q.is_dir() else '') for q in p.rglob('*'))

    before = tree(src)
    with contextlib.redirect_stdout(io.StringIO()):
        migrate_to_parameter_mode(Config(src, d / 'cfg.json'), dst, dry=True)
    print('  source tree before   :', before)
    print('  source tree after dry:', tree(src), '(expected unchanged)')
    json.dump({'configs': {'p1': {'tasks': ['rtasks.m.OneTask'], 'x': 1}, 'p2': {'main_part': True, 'tasks': ['rtasks.m.OneTask'], 'x': 2}}}, (d / 'multi.json').open('w'))
    Config(src, str(d / 'multi.json'), part='p1').chain(parameter_mode=False).one.value
    with contextlib.redirect_stdout(io.StringIO()) as out:
        migrate_to_parameter_mode(Config(src, str(d / 'multi.json'), part='p1'), dst, dry=False)
    print('  multi-config part p1 :', [line.strip() for line in out.getvalue().splitlines() if 'parameters' in line], '(expected x=1)')
    print('  p1 chain has_data    :', Config(dst, str(d / 'multi.json'), part='p1').chain().one.has_data, '| p2 chain loads', Config(dst, str(d / 'multi.json'), part='p2').chain().one.value, '(p2 was never computed; expected 2)')


ALL = [c01_c09_namespace_sharing, c08_alias_lost, c09_conflict_vacuous, c08_namespace_prefix, c10_textual_suffix, c03_unescaped_str,
       c02_order_dependence, c05_nonatomic_save, c11_reprstr_copy, c15_cache_window, c18_handler_leak, c20_migration]

if __name__ == '__main__':
    import shutil

    try:
        names = sys.argv[1:]
        if names == ['_c02_child']:
            _c02_child()
        else:
            for f in ALL:
                if not names or f.__name__ in names:
                    print(f'== {f.__name__}')
                    f()
    finally:
        shutil.rmtree(TMP, ignore_errors=True)
