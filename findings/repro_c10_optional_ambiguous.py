import tempfile
from pathlib import Path
from taskchain import Config, Task, Chain
from taskchain.parameter import InputTaskParameter

class Src1(Task):
    class Meta:
        task_group = 'g'
        name = 'src'
    def run(self) -> int:
        return 1

class Src2(Task):
    class Meta:
        task_group = 'h'
        name = 'src'
    def run(self) -> int:
        return 2

class Use(Task):
    class Meta:
        input_tasks = [InputTaskParameter('src', default=-1)]
    def run(self, src) -> int:
        return src

class UseReq(Task):
    class Meta:
        input_tasks = ['src']
    def run(self, src) -> int:
        return src

d = Path(tempfile.mkdtemp())
c = Config(d, name='c', data={'tasks': [Src1, Src2, Use]})
ch = Chain(c)
print('optional ambiguous input ->', ch['use'].value, ' (tasks:', sorted(ch.tasks), ')')
try:
    ch['src']
except KeyError as e:
    print('chain lookup:', e)
try:
    Chain(Config(d, name='c2', data={'tasks': [Src1, Src2, UseReq]}))
except ValueError as e:
    print('required:', e)
