#!/venv/bin/python
"""Regenerate /verif/MANIFEST.json from the table below (claimed = a rules module exists)."""
import json
import os

HERE = os.path.dirname(os.path.dirname(os.path.abspath(__file__)))

T = {
    'C01': ('control-dependence of the load on exists ∧ ¬forced ∧ persisting; dependency facts of the storage-key term (every parameter repr, every input key, recursively); '
            'registry keys at least as fine as the object\'s determinants; def-use of parameter values (declaring config only, deep-copied declarations); run arguments bound by name; work directories hold nothing of an earlier attempt when a result is published; a failed run leaves no data object behind (imported from C05); a used config is prepared with its final namespace and context (imported from C09)',
            'equality of returned and reference values over histories; user run()/repr() code; hash collisions',
            'CFG control dependence + symbolic key-term dependency analysis + def-use', '3 C01'),
    'C02': ('every order-unstable iteration feeding the hashed text is sorted; the key term contains no config name / path / namespace content / process state; ignore flags honoured on every path; '
            'placeholder repr encoded exactly once; the key names inputs relative to the consumer\'s namespace; whether a string is rendered by its placeholder text does not depend on the variables', 'byte-equality of the text for every pair of semantically equal rewritings; user repr() methods; a registry in which nothing contributes renders as an empty registry',
            'symbolic term analysis of the hashed text (ordering, provenance, guards)', '3 C02'),
    'C03': ('every user string reaching the hashed text passes an injective escaper; containers traversed completely; name=value binding with literal separators; digest >= 128 bit; the hashed text is encoded losslessly; AutoParameterObject leaves out an argument only for the three documented reasons; loop iterations of the renderers are independent; a parameter object contributes its stored (private) constructor argument (imported from C02)',
            'injectivity of user-written repr(); hash collisions', 'injection-style lint over the symbolic key term', '3 C03'),
    'C04': ('Task.run unreachable from every construction / inspection entry point named by the property; every path through the load statement is free of RUN and upstream pulls; '
            'memo short-circuit; registry hit returns the registered object; data objects tested for truth keep object truthiness (no __len__/__bool__ in the Data hierarchy)', 'run counts over histories and across processes',
            'call-graph reachability with receiver-class specialisation + CFG dominance', '3 C04'),
    'C05': ('the visible path of every data class is created only by an atomic rename that follows all writes to the temporary; the failure handler of Task.data resets state, calls on_run_error and re-raises on every exceptional path; '
            'type check dominates save; failed work directories are renamed aside, resumable ones never deleted on init; every attempt starts from an empty temporary (work dirs wiped, files opened truncating); the work directory handed to run() is the temporary path on every path; the failure handler also covers a run aborted by a BaseException; a temporary file is closed before it is published',
            'torn writes inside third-party serialisers, fsync durability, equality of the recomputed value', 'effect summaries with symbolic path targets + CFG must-pass-through on exception edges', '3 C05'),
    'C06': ('writer/reader codec, path, mode and order agree per data class and per file-cache class; load/exists/value are write-free; unset tests are identity tests; the serialiser receives the stored value itself; serialisers and parsers keep no state; the writer of generated sequences consumes its (possibly one-shot) iterable once; loop iterations of loaders / writers are independent; temporaries are fresh and closed before they are published (imported from C05)',
            'value fidelity inside orjson / numpy / pandas / pickle (dtypes, unicode, NaN, 64-bit boundaries)', 'sibling cross-check of save/load pairs + effect summaries', '3 C06'),
    'C07': ('forced flag is a conjunct of the load guard; Task.force postcondition on all paths; edge orientation x closure direction = downstream; flags forwarded to the whole closure (value term of the forced set); delete() removes exactly the visible path; publishing replaces the stored result as a whole; the forced flag is cleared only after success; force loops carry no state between tasks',
            'run counts over request orders', 'CFG guards + symbolic term of the forced set + API-semantics table for graph closures + effect targets', '3 C07'),
    'C08': ('acyclicity and missing-input gates on every construction path (all _prepare overrides); exclusion before registration; structured-name tests are segment-wise; inputs resolved namespace-exact; no declaration loop reads a local left behind by an earlier iteration (defaults, lookup results, exclusion sets); the acyclicity test follows the last added edge',
            'edge identity for every configuration (needs the resolver run on concrete name sets)', 'CFG must-pass-through + name-kind lint', '3 C08'),
    'C09': ('context order global then namespace, deep-copied; exact namespace equality; propagation to used configs; required/dtype gates; conflict test is a real comparison; first pass does not share task objects across namespaces; preparing a context does not modify the context given by the caller; no attribute of a caller-owned Config is read-modify-written [known finding]; every layer copied from a context passes deepcopy, global before namespace; the second-pass config copies parameters under the looked-up name; a used Config object is prepared after its namespace and context are final; Config.repr_name names path and part with and without namespace',
            'resulting values for every config tree; YAML/JSON parsing', 'CFG ordering + taint (deepcopy sanitiser) + degenerate-equality class analysis + sibling cross-check', '3 C09'),
    'C10': ('suffix priority is separator-aware; ambiguity and absence raise on every path; no positional pick; every access path routes through the one resolver and converts exactly KeyError; a name picked by position needs a test over all matches; no caller swallows the ambiguity error as "not found"; resolution loops carry no state; a candidate matches without its group by the component after the last `:`',
            'the full resolution table over all name sets', 'name-kind lint + CFG raise discipline + call-graph must-reach', '3 C10'),
    'C11': ('traversal reaches every list/dict depth and only strings; idempotence guard dominates substitution; undefined placeholder restored verbatim; lazy regex; substitution after context, before objects; repr encoded once; no exact-type test on config-derived (possibly substituted) strings; substitution results on bare strings are kept; a string is wrapped as substituted whenever a placeholder matched; in-place substitution only touches the config\'s own copies; every nested load of a context `uses` item forwards the variables (also through helper methods)',
            'regex behaviour on every string', 'CFG rules on the traversal + symbolic term of the replacement callback by lookup mode + regex AST + encoding-level (units) analysis + CFG ordering + taint of config-derived values', '3 C11'),
    'C12': ('the symbolic terms of key, directory, file name, extension and side-file derivation equal the frozen 1.4.0 reference terms; directory results replace the stored directory as a whole (layout <key>/ kept)',
            'nothing structural; residual risk is the normaliser fragment (differences it cannot interpret are UNDECIDED)', 'symbolic term equality against frozen reference terms (Merkle DAG)', '3 C12'),
    'C13': ('one registry object reaches every member chain and both passes; registry key = (task, storage key) and the storage key covers every input; registry hit / miss by cases on the value term; force fans out over all chains with its arguments unchanged; name-mode registry key names the config file; Task.force repeatable and Chain.force all-or-nothing (fan-out over shared tasks)', 'value equality with standalone chains',
            'def-use of the shared registry + symbolic value term of _create_task by cases + CFG loop rules', '3 C13'),
    'C14': ('compute precedes save and nothing is saved on its exceptional exit; key-mismatch error propagates, other load errors fall through to recompute; full digest in the file name; force reaches the guard; get never computes; CacheException only for a key mismatch; the in-memory entry survives a failing forced computation; numpy entries can be read back as written; the presence test is made under the key lock; save_value refuses a value before it opens the file for writing',
            'value round trip; behaviour on every truncation (library level)', 'CFG handler-order and must-pass-through rules + path term', '3 C14'),
    'C15': ('every cache-file write happens under the key\'s lock; the existence check and the load it guards share one critical section; same lock identity in all entry points; every load holds the lock; the lock is a blocking, per-thread OS-level FileLock; a failing load never escapes get / get_or_compute; numpy entries are copies, not views of the file; whether an entry is stored is decided while holding the lock; a refused value is refused before the file is truncated',
            'real interleavings; OS-level lock semantics (trusted)', 'lockset analysis (lock identity and configuration from the symbolic term of the with-item, also through helpers)', '3 C15'),
    'C16': ('positional-to-keyword normalisation with consistent offsets, defaults filled, ignored names removed, sorted serialisation; sub-cache name = method[.version]; control keywords routed; an unreadable file-cache entry is recomputed and stored again; a test on the kind of a parameter only sets *args / **kwargs aside; the binding dict is per call (not a memoised object); presence decided under the lock; a forced re-execution keeps the entry until it has the new value',
            'JSON distinguishability of arbitrary argument values; call counts', 'idiom rule over the normalisation loop + def-use', '3 C16'),
    'C17': ('completion-ordered results pass an index sort before return on the sorted path; fun has exactly one call site per path and no try swallows its exception; chunk idiom well-formed; no helper closes the event loop the other helper obtains with get_event_loop(); the display arguments (desc, total, smoothing) reach only the progress bar',
            'actual schedules; exactly-once under executor semantics', 'taint on the symbolic value term (source as_completed, sanitiser index sort not crossed by a loop binder) + CFG rules for chunked', '3 C17'),
    'C18': ('the run-scoped log handler is removed on every exit of Task.data; run info initialised before run, written only after a successful save; truncating log mode; record fields present; run-info and log file names are one-to-one in the result name; also when run() is aborted by a BaseException; the run record is finished only after the value was stored',
            'log and record contents over histories', 'CFG pairing rule on normal and exceptional exits + dominance', '3 C18'),
    'C19': ('TestChain._prepare keeps the base pipeline stages in order; mocks are in-memory, return the stored value and have no RUN/FS effect; real tasks go through _create_task; the helper store is private or keyed by parameters and mocks [known finding]; chain code reads task results only through .value; input task objects are only asked for .value while a task is computed',
            'the differential equality of values', 'override consistency cross-check + effect summary', '3 C19'),
    'C20': ('every mutating effect of migration targets the new chain; copies are src=old, dst=new under not dry and has_data guards; config identity (path and part) propagated; a task is skipped only for a legitimate reason; the name-mode identifier keeps the parts of a file apart; existing targets are compared with their source (never a value with itself); copies carry no option changing what is copied; the source != target guard compares like with like; the two chains are paired by the names their tasks are registered under; the source size is read only when the source has data',
            'equality of migrated values', 'effect summaries with receiver-substituted targets + CFG guards', '3 C20'),
}


def main():
    props = [json.loads(l) for l in open(os.path.join(HERE, 'properties.jsonl'))]
    checks, na = [], []
    built = []
    for p in props:
        pid = p['id']
        mod = os.path.join(HERE, 'tcverif', 'rules', pid.lower() + '.py')
        if not os.path.exists(mod):
            na.append({'property_id': pid, 'reason': 'check not built yet (implementation in progress, see DESIGN.md section 9)'})
            continue
        built.append(pid)
        decided, not_decided, technique, ref = T[pid]
        checks.append({
            'property_id': pid,
            'quick_cmd': f'/venv/bin/python -m tcverif check {pid}',
            'thorough_cmd': f'/venv/bin/python -m tcverif check {pid} --thorough',
            'evidence_file': f'/verif/evidence/{pid}.json',
            'replay_cmd_template': '/venv/bin/python -m tcverif explain {path}',
            'engine': 'tcverif',
            'level_claimed': {
                'category': 'other',
                'text': f'Static analysis of the current source, universally quantified over executions for the structural clauses it names - NOT the behaviour as a whole. '
                        f'Decided (necessary conditions of {pid}): {decided}. Not decided: {not_decided}.',
                'design_ref': f'DESIGN.md section {ref}',
            },
            'level_note': 'Trusted: CPython ast; tcverif\'s model of Python evaluation order/MRO; its primitive-effect and API-semantics tables; the frozen receiver-hint table. '
                          'Assumes no monkey-patching and no user subclasses of package classes beyond Task.run / ParameterObject.repr / ChainObject.init_chain hooks.',
            'technique': 'static analysis: ' + technique,
        })
    m = {
        'version': 1,
        'setup_cmd': '/venv/bin/python -m tcverif selfcheck',
        'hooks': {
            'guard': 'FLOWERCHECKER_TASKCHAIN_VERIF',
            'enable': 'none needed: the checks are static analyses of /repo\'s source and never import or run taskchain; no instrumentation was added to /repo',
            'baseline_off_cmd': 'cd /repo && /venv/bin/python -m pytest -ra -q -p no:cacheprovider --timeout=900 --continue-on-collection-errors',
            'source_commits': [],
            'add_only': True,
        },
        'engines': [{'name': 'tcverif', 'path': '/verif/tcverif', 'serves_properties': built,
                     'kind_free_text': 'repository-specific static analyser over ast: resolved program model, receiver typing, call graph with receiver-class specialisation, '
                                       'statement CFG with exception edges and dominators, effect summaries with symbolic path targets, symbolic string/path terms'}],
        'checks': checks,
        'not_applicable': na,
        'notes': 'Static analysis only (see DESIGN.md). Verdicts: discharged / VIOLATION (exit 1) / KNOWN-FINDING (listed in known_findings.json, exit 0) / UNDECIDED (never an alarm) / '
                 'ANALYSIS-ERROR (exit 2: anchor vanished or instance floor not met). thorough = quick + package-wide sweeps + checker validation on in-memory variants (never decides the exit code).',
    }
    with open(os.path.join(HERE, 'MANIFEST.json'), 'w') as f:
        json.dump(m, f, indent=1, ensure_ascii=False)
    print('claimed', len(checks), 'not_applicable', len(na))


if __name__ == '__main__':
    main()
