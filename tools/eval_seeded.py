#!/venv/bin/python
"""tools/eval_seeded.py <property> <dir with patchN.diff / demoN.py / metaN.json> [--keep]

Independently confirms each seeded change in a fresh scratch worktree of /repo (outside /repo and /verif):
  patch applies, full test suite still passes, demo fails on the changed tree and passes on the clean tree;
then runs the static checks against the changed sources (in-memory overlay of the patched files) and reports which
check / rule reports it.  With --keep, confirmed changes are stored under /verif/seeded/<property>-<n>/.
"""
import json
import os
import shutil
import subprocess
import sys
import tempfile

HERE = os.path.dirname(os.path.dirname(os.path.abspath(__file__)))
sys.path.insert(0, HERE)
PY = '/venv/bin/python'


def sh(cmd, cwd=None, env=None, timeout=900):
    p = subprocess.run(cmd, cwd=cwd, env=env, shell=True, capture_output=True, text=True, timeout=timeout)
    return p.returncode, (p.stdout + p.stderr)


def all_props():
    return sorted('C' + f[1:-3] for f in os.listdir(os.path.join(HERE, 'tcverif', 'rules')) if f.startswith('c') and f[1:-3].isdigit())


def _one_check(args):
    p, overlay = args
    from tcverif.__main__ import run_check
    code, R = run_check(p, False, overlay=overlay, quiet=True, write=False)
    return p, code, sorted({(o.rule, o.construct) for o in R.obs if o.status == 'VIOLATION'}), getattr(R, 'error', '')


def main():
    prop, d = sys.argv[1], sys.argv[2]
    keep = '--keep' in sys.argv
    offset = int(sys.argv[sys.argv.index('--offset') + 1]) if '--offset' in sys.argv else 0
    results = []
    n = 1
    while os.path.exists(os.path.join(d, f'patch{n}.diff')):
        patch = os.path.abspath(os.path.join(d, f'patch{n}.diff'))
        demo = os.path.abspath(os.path.join(d, f'demo{n}.py'))
        meta = {}
        mp = os.path.join(d, f'meta{n}.json')
        if os.path.exists(mp):
            try:
                meta = json.load(open(mp))
            except Exception:
                meta = {}
        wt = tempfile.mkdtemp(prefix=f'confirm_{prop}_{n}_', dir='/tmp')
        os.rmdir(wt)
        res = {'n': n, 'summary': meta.get('summary', ''), 'needs': meta.get('needs_to_manifest', '')}
        try:
            rc, out = sh(f'git -C /repo worktree add -q --detach {wt} HEAD')
            assert rc == 0, out
            env = dict(os.environ, PYTHONPATH=f'{wt}/src:{wt}')
            os.makedirs(f'{wt}/out', exist_ok=True)
            shutil.copy(demo, f'{wt}/out/demo.py')
            rc, out = sh(f'git apply {patch}', cwd=wt)
            res['applies'] = rc == 0
            if rc != 0:
                res['error'] = out[-300:]
                results.append(res)
                continue
            rc, out = sh(f'{PY} -m pytest -q -p no:cacheprovider 2>&1 | tail -3', cwd=wt, env=env)
            res['tests'] = '128 passed' in out
            res['tests_tail'] = out.strip().splitlines()[-1] if out.strip() else ''
            rc, out = sh(f'{PY} out/demo.py', cwd=wt, env=env, timeout=300)
            res['demo_fails_on_changed'] = rc != 0
            res['demo_changed_tail'] = out.strip().splitlines()[-1][:200] if out.strip() else ''
            # changed sources -> overlay
            rc, names = sh('git diff --name-only', cwd=wt)
            overlay = {}
            for f in names.split():
                if f.startswith('src/') and f.endswith('.py'):
                    overlay[f] = open(os.path.join(wt, f)).read()
            res['files'] = sorted(overlay)
            sh('git checkout -- src', cwd=wt)
            rc, out = sh(f'{PY} out/demo.py', cwd=wt, env=env, timeout=300)
            res['demo_passes_on_clean'] = rc == 0
            caught = {}
            from concurrent.futures import ProcessPoolExecutor
            with ProcessPoolExecutor(max_workers=16) as ex:
                for p, code, rules, err in ex.map(_one_check, [(p, overlay) for p in all_props()]):
                    if code == 1:
                        caught[p] = rules
                    elif code == 2:
                        caught[p] = [('ANALYSIS-ERROR', err)]
            res['caught_by'] = caught
            res['caught_by_target'] = prop in caught and caught[prop] and caught[prop][0][0] != 'ANALYSIS-ERROR'
            res['confirmed'] = bool(res.get('applies') and res.get('tests') and res.get('demo_fails_on_changed') and res.get('demo_passes_on_clean'))
            if keep and res['confirmed']:
                dst = os.path.join(HERE, 'seeded', f'{prop}-{n + offset}')
                os.makedirs(dst, exist_ok=True)
                shutil.copy(patch, os.path.join(dst, 'patch.diff'))
                shutil.copy(demo, os.path.join(dst, 'demo.py'))
                json.dump({'property': prop, 'summary': res['summary'], 'needs_to_manifest': res['needs'], 'files': res['files'], 'origin': 'independent sub-agent given only the property text',
                           'confirmed': {'cmd_tests': 'cd <scratch worktree> && PYTHONPATH=<wt>/src:<wt> /venv/bin/python -m pytest -q -p no:cacheprovider', 'tests': res['tests_tail'],
                                         'cmd_demo': 'PYTHONPATH=<wt>/src:<wt> /venv/bin/python demo.py', 'demo_on_changed_tree': 'fails: ' + res['demo_changed_tail'], 'demo_on_clean_tree': 'passes (exit 0)'},
                           'round': 3 if offset else 1,
                           'static_checks': {'first_evaluation': True, 'reported_by': {k: [list(x) for x in v] for k, v in caught.items()}, 'reported_by_target_property': bool(res['caught_by_target'])}},
                          open(os.path.join(dst, 'meta.json'), 'w'), indent=1)
        except Exception as e:  # noqa
            res['error'] = f'{type(e).__name__}: {e}'
        finally:
            sh(f'git -C /repo worktree remove --force {wt}')
            shutil.rmtree(wt, ignore_errors=True)
        results.append(res)
        n += 1
    print(json.dumps(results, indent=1, default=str))


if __name__ == '__main__':
    main()
