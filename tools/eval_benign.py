#!/venv/bin/python
"""tools/eval_benign.py <dir with refactorN.diff/json> : confirm each behaviour-preserving refactoring (applies, 128 tests pass in a
fresh scratch worktree) and run EVERY check against the refactored sources; any exit != 0 is a false alarm / analysis error to fix."""
import json, os, shutil, subprocess, sys, tempfile
HERE = os.path.dirname(os.path.dirname(os.path.abspath(__file__)))
sys.path.insert(0, HERE)
PY = '/venv/bin/python'

def sh(cmd, cwd=None, env=None, timeout=900):
    p = subprocess.run(cmd, cwd=cwd, env=env, shell=True, capture_output=True, text=True, timeout=timeout)
    return p.returncode, p.stdout + p.stderr

def _one_check(args):
    p, overlay = args
    from tcverif.__main__ import run_check
    code, R = run_check(p, False, overlay=overlay, quiet=True, write=False)
    return p, code, [(o2.rule, o2.construct, o2.detail[:140]) for o2 in R.obs if o2.status == 'VIOLATION'], getattr(R, 'error', '')


def main():
    d = sys.argv[1]
    keep = '--keep' in sys.argv
    tag = os.path.basename(os.path.dirname(os.path.abspath(d)))
    from tcverif.__main__ import run_check
    props = sorted('C' + f[1:-3] for f in os.listdir(os.path.join(HERE, 'tcverif', 'rules')) if f.startswith('c') and f[1:-3].isdigit())
    n = 1
    out = []
    while os.path.exists(os.path.join(d, f'refactor{n}.diff')):
        patch = os.path.abspath(os.path.join(d, f'refactor{n}.diff'))
        meta = {}
        try:
            meta = json.load(open(os.path.join(d, f'refactor{n}.json')))
        except Exception:
            pass
        wt = tempfile.mkdtemp(prefix=f'benign_{tag}_{n}_', dir='/tmp'); os.rmdir(wt)
        res = {'n': n, 'summary': meta.get('summary', '')[:200]}
        try:
            rc, o = sh(f'git -C /repo worktree add -q --detach {wt} HEAD'); assert rc == 0, o
            rc, o = sh(f'git apply {patch}', cwd=wt)
            res['applies'] = rc == 0
            if rc == 0:
                env = dict(os.environ, PYTHONPATH=f'{wt}/src:{wt}')
                rc, o = sh(f'{PY} -m pytest -q -p no:cacheprovider 2>&1 | tail -2', cwd=wt, env=env)
                res['tests'] = '128 passed' in o
                rc, names = sh('git diff --name-only', cwd=wt)
                overlay = {f: open(os.path.join(wt, f)).read() for f in names.split() if f.endswith('.py')}
                alarms = {}
                from concurrent.futures import ProcessPoolExecutor
                with ProcessPoolExecutor(max_workers=16) as ex:
                    for p, code, viol, err in ex.map(_one_check, [(p, overlay) for p in props]):
                        if code != 0:
                            alarms[p] = viol or [('ANALYSIS-ERROR', err)]
                res['alarms'] = alarms
                if keep and res['tests']:
                    dst = os.path.join(HERE, 'benign', f'{tag}-{n}')
                    os.makedirs(dst, exist_ok=True)
                    shutil.copy(patch, os.path.join(dst, 'patch.diff'))
                    json.dump({'summary': meta.get('summary'), 'why_equivalent': meta.get('why_equivalent'), 'properties': meta.get('properties'), 'origin': 'independent sub-agent asked for behaviour-preserving refactorings',
                               'tests': '128 passed'}, open(os.path.join(dst, 'meta.json'), 'w'), indent=1)
        except Exception as e:
            res['error'] = f'{type(e).__name__}: {e}'
        finally:
            sh(f'git -C /repo worktree remove --force {wt}'); shutil.rmtree(wt, ignore_errors=True)
        out.append(res); n += 1
    print(json.dumps(out, indent=1))

if __name__ == '__main__':
    main()
