#!/venv/bin/python
"""The C12 reference must describe release 1.4.0: it is regenerated from the current tree after every change of the term
normaliser, so this script re-checks that the *pinned, pre-fix* sources (commit d7ce335) still evaluate to the same terms."""
import os, subprocess, sys
sys.path.insert(0, os.path.dirname(os.path.dirname(os.path.abspath(__file__))))
from tcverif.__main__ import run_check
files = subprocess.check_output(['git', '-C', '/repo', 'diff', '--name-only', 'd7ce335', 'HEAD']).decode().split()
ov = {f: subprocess.check_output(['git', '-C', '/repo', 'show', f'd7ce335:{f}']).decode() for f in files if f.endswith('.py')}
code, R = run_check('C12', False, overlay=ov, quiet=True, write=False)
print('pinned pre-fix tree vs reference: exit', code, [o.construct for o in R.obs if o.status != 'discharged'][:5])
sys.exit(code)
