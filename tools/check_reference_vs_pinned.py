#!/venv/bin/python
"""The C12 reference must describe release 1.4.0: it is regenerated from the current tree after every change of the term
normaliser, so this script re-checks that the *pinned, pre-fix* sources (commit d7ce335) still evaluate to the same terms."""
import os, subprocess, sys
sys.path.insert(0, os.path.dirname(os.path.dirname(os.path.abspath(__file__))))
from tcverif.__main__ import run_check
files = subprocess.check_output(['git', '-C', '/repo', 'diff', '--name-only', 'd7ce335', 'HEAD']).decode().split()
ov = {f: subprocess.check_output(['git', '-C', '/repo', 'show', f'd7ce335:{f}']).decode() for f in files if f.endswith('.py')}
code, R = run_check('C12', False, overlay=ov, quiet=True, write=False)
# only the term comparison matters here: the other C12 rules (e.g. R12.2, imported from C07) rightly report the defects the fix: commits repaired
bad = [o.construct for o in R.obs if o.status != 'discharged' and o.rule == 'C12.term']
n = sum(1 for o in R.obs if o.rule == 'C12.term')
print('pinned pre-fix tree vs reference:', 'exit', 1 if bad or not n else 0, bad[:5], f'({n} anchors compared)')
sys.exit(1 if bad or not n else 0)
