#!/usr/bin/env python3
"""Generate the prompts handed to fresh sub-agents (they see only the property record and their own scratch worktree).

    python tools/make_prompts.py seeded C01 /tmp/wt/S3-C01 [--avoid-caches]     -> prompt text on stdout
    python tools/make_prompts.py benign C01,C04 /tmp/wt/B11                     -> prompt text on stdout

Nothing from /verif other than the text of the given properties goes into a prompt.
"""
import json
import sys

PROPS = {json.loads(l)['id']: json.loads(l) for l in open('/verif/properties.jsonl') if l.strip()}

SEEDED = '''You are helping to evaluate a verification tool by writing realistic *bugs* ("seeded changes") for a small Python library, flowerchecker/taskchain (config-driven data/ML pipelines: tasks form a DAG, results persist to disk under hashes of parameters and upstream tasks).

Your private scratch copy of the repository is the git worktree {wt} (library source under {wt}/src/taskchain, tests under {wt}/tests). Work ONLY inside {wt}. Never read, write or run anything under /repo or /verif.

The property you must break (this JSON record is everything you are told about it):

{prop}

Task: produce THREE different, independent changes to the library source (src/taskchain/...), each of which
  1. still compiles/imports and keeps the whole existing test suite green:
       cd {wt} && PYTHONPATH={wt}/src /venv/bin/python -m pytest -q -p no:cacheprovider -x      (must end with "128 passed")
  2. breaks the property above (a real behavioural violation of its statement, not just a style change),
  3. needs something SPECIFIC to manifest - a particular interleaving, a crash or fault at a particular point, a multi-step sequence of operations, an unusual input, or two cooperating sites that each look fine alone - i.e. NOT something ordinary use or the existing tests would expose at once. Prefer subtle, plausible edits a tired maintainer could make (an "optimisation", a refactoring slip, a wrong condition, a dropped guard, reordered statements, a wrong argument, an off-by-one, a broadened or narrowed exception handler, a changed default ...). Make the three changes different in kind and, if possible, in the file/function they touch. Do not edit the tests, and do not add new dependencies.{extra}
  4. comes with a demonstration: a small standalone Python script that exits with status 0 when the property holds and non-zero (assertion failure) when it is violated. The demo must FAIL on the changed tree and PASS on the unchanged tree. Run it as:
       cd {wt} && PYTHONPATH={wt}/src:{wt} /venv/bin/python out/demoN.py
     (use tempfile.mkdtemp() for data directories; task classes can be defined inside the demo script or imported from tests.tasks; the sandbox has no network.)

Procedure for each change N in 1..3:
  - make the edit in the worktree; run the full test suite (command above) and make sure it still says 128 passed;
  - write out/demoN.py; run it on the changed tree (must fail) ;
  - save the change:   cd {wt} && mkdir -p out && git diff -- src > out/patchN.diff
  - undo the edit:     cd {wt} && git checkout -- src      and run out/demoN.py again on the unchanged tree (must pass, exit 0);
  - write out/metaN.json: {{"property": "{pid}", "summary": "<one sentence: what was changed>", "needs_to_manifest": "<what specific input/sequence/fault is needed>", "files": ["src/taskchain/..."], "demo": "out/demoN.py"}}
At the end the worktree's src/ must be unmodified (git status clean apart from out/), and out/ must contain patch1..3.diff, demo1..3.py, meta1..3.json.

In your final answer, list for each change: one-line summary, what it needs to manifest, and the observed results (tests: 128 passed; demo on changed tree: failed with ...; demo on clean tree: passed). If you could only produce fewer than three valid changes, say so honestly.
'''

DIVERSE = '''
     Earlier reviewers have already tried the most obvious edits at the most obvious places (the key / hash computation, the load-or-run condition, adding a cache). Prefer less obvious sites named in the anchors (helpers, data classes, utility functions, less used parameters and modes) and less obvious kinds of mistake (a changed default, an argument passed positionally to the wrong parameter, an `or` / `and` slip, a loop that stops early, a copy that became an alias or vice versa, a wrong exception class, a comparison on the wrong attribute).'''

ANGLES = '''
     Make the three changes come from three different angles: (A) an interaction - an edit in one function that is harmless on its own but breaks an assumption another function, class or caller relies on; (B) a rarely exercised corner - a less used data class, mode, option, helper or entry point named in the anchors (or reachable from them) that the tests never touch; (C) a failure path - what happens after an exception, an interrupted process, a partial write or a retry.'''

ANGLES2 = '''
     Make the three changes come from three different angles: (D) a library call used slightly wrongly - a changed keyword argument, flag, default, mode or an "equivalent" function of the standard library / numpy / pandas / networkx / filelock / json that behaves differently in some case; (E) a confusion of kinds - str vs Path, list vs one-shot iterator, None vs empty container vs missing key, class vs instance, a name with vs without namespace / group / extension, bytes vs text; (F) a boundary - code that is right for the common case and wrong for the empty, single-element, duplicate, equal-named, zero, first or last case.'''

DISGUISED = '''
     Disguise each change: embed it in a plausible, otherwise behaviour-preserving refactoring of the surrounding function(s) - renamed locals, an extracted private helper, restructured conditionals (early returns, a flag, merged or split tests), a comprehension turned into a loop or back, f-strings turned into str.format - so that the diff is 15 to 50 lines and the faulty part is not obvious from the diff. Apart from the one fault, the refactoring must keep the behaviour exactly. The three faults themselves must be of three different kinds.'''

ANGLES3 = '''
     Make the three changes come from three different angles: (G) an omission - something that has to happen on every path, for every element or in every branch is left out in ONE of them (an early return, an exception branch, an `else`, the last / first element, one of several sibling classes or methods that should behave alike); (H) an ordering - two steps swapped, or a step moved across a condition, loop, `try` or lock boundary, so that the result is the same unless something happens in between or one of the steps fails; (I) scope or identity - a value computed once and shared where it must be computed per item / per call (or the reverse), an object aliased where it must be copied (or copied where it must be shared), a name / key / path built from the wrong one of two similar-looking variables. At least one of the three should additionally be embedded in a plausible, otherwise behaviour-preserving refactoring of the surrounding function (renamed locals, an extracted helper, restructured conditionals), so that the diff reads like routine maintenance.
'''

AVOID = '''
     At most ONE of the three changes may consist of adding a cache / memo / stored flag; the others must be of a different kind (conditions, ordering of statements, arguments passed, names / keys / paths computed, error handling, iteration, copying vs aliasing, locking, what is written where).'''

BENIGN = '''You are helping to evaluate a verification tool for a small Python library, flowerchecker/taskchain (config-driven data/ML pipelines: tasks form a DAG, results persist to disk under hashes of parameters and upstream tasks). This time we need the opposite of bugs: BEHAVIOUR-PRESERVING REFACTORINGS, to find out whether the tool raises false alarms on correct code.

Your private scratch copy of the repository is the git worktree {wt} (library source under {wt}/src/taskchain, tests under {wt}/tests). Work ONLY inside {wt}. Never read, write or run anything under /repo or /verif.

The properties whose implementing code you should refactor (the "anchors" name the files / functions that matter):

{prop}

Task: produce SIX different refactorings of the code named in the anchors (spread them over the functions mentioned; each refactoring touches one or two functions). Each refactoring must
  1. keep the observable behaviour EXACTLY the same for every input (same return values, same exceptions in the same situations, same files written with the same names and contents, same storage keys) - it must NOT break the properties above, not even in corner cases; if you are not sure a rewrite is exactly equivalent, do not use it;
  2. keep the whole test suite green:
       cd {wt} && PYTHONPATH={wt}/src /venv/bin/python -m pytest -q -p no:cacheprovider -x      (must end with "128 passed")
  3. be a realistic maintenance edit, and be NON-TRIVIAL for a static analyser: e.g. rename local variables or private helper parameters; extract a helper function/method or inline one; replace a comprehension by a loop or vice versa; replace an f-string by concatenation / %-formatting / str.format or vice versa; restructure conditionals (early return vs nested if/else, De Morgan, flipped condition with swapped branches, merged or split conditions); introduce an intermediate local variable for a sub-expression or a condition; reorder independent statements; replace `x is not None` style checks by equivalent ones; use an equivalent library call (e.g. Path.replace instead of os.replace, `sorted(d.items())` vs sorting keys then indexing); add logging / comments / type annotations / assertions that cannot fail. Do NOT add caches or any new state.
Do not edit the tests, do not add dependencies.

Procedure for each refactoring N in 1..6:
  - make the edit; run the full test suite (must say 128 passed);
  - save it:   cd {wt} && mkdir -p out && git diff -- src > out/refactor$N.diff
  - write out/refactor$N.json: {{"properties": [...ids it is relevant to...], "summary": "<what was rewritten into what>", "why_equivalent": "<one or two sentences>", "files": ["src/taskchain/..."]}}
  - undo it:   cd {wt} && git checkout -- src
At the end src/ must be unmodified and out/ must contain refactor1..6.diff and refactor1..6.json.

In your final answer list the six refactorings (one line each) and confirm the test result for each.
'''


def main():
    kind, ids, wt = sys.argv[1], sys.argv[2].split(','), sys.argv[3]
    if kind == 'seeded':
        p = PROPS[ids[0]]
        print(SEEDED.format(wt=wt, prop=json.dumps(p, indent=1), pid=ids[0], extra=(AVOID if '--avoid-caches' in sys.argv else '') + (DIVERSE if '--diverse' in sys.argv else '') + (ANGLES if '--angles' in sys.argv else '') + (ANGLES3 if '--angles3' in sys.argv else '') + (ANGLES2 if '--angles2' in sys.argv else '') + (DISGUISED if '--disguised' in sys.argv else '')))
    else:
        recs = []
        for i in ids:
            p = dict(PROPS[i])
            p.pop('why_tests_cant', None)
            recs.append(json.dumps(p, indent=1))
        print(BENIGN.format(wt=wt, prop='\n\n'.join(recs)))


if __name__ == '__main__':
    main()
