#!/venv/bin/python
"""Re-evaluate every kept seeded change with the current checks and record the result under static_checks.now in its meta.json."""
import json, os, sys
HERE = os.path.dirname(os.path.dirname(os.path.abspath(__file__)))
sys.path.insert(0, HERE)
from tcverif.selftest import apply_unified_diff
from tcverif.core import REPO
from tcverif.__main__ import run_check
sd = os.path.join(HERE, 'seeded')
rows = []
for sid in sorted(os.listdir(sd)):
    mp = os.path.join(sd, sid, 'meta.json')
    if not os.path.exists(mp):
        continue
    meta = json.load(open(mp))
    ov = apply_unified_diff(REPO, open(os.path.join(sd, sid, 'patch.diff')).read())
    if ov is None:
        meta.setdefault('static_checks', {})['now'] = {'applies': False}
    else:
        code, R = run_check(meta['property'], False, overlay=ov, quiet=True, write=False)
        rules = sorted({o.rule for o in R.obs if o.status == 'VIOLATION'})
        meta.setdefault('static_checks', {})['now'] = {'applies': True, 'reported_by_target_property': code == 1, 'rules': rules}
    json.dump(meta, open(mp, 'w'), indent=1)
    sc = meta['static_checks']
    first = sc.get('first_evaluation_(before_strengthening)', sc)
    rows.append((sid, meta['property'], bool(first.get('reported_by_target_property')), sc['now'].get('rules', []), (meta.get('summary') or '')[:110].replace('|', '/')))
for r in rows:
    print('| %s | %s | %s | %s | %s |' % (r[0], r[1], 'reported' if r[2] else 'missed', ', '.join(r[3]), r[4]))
