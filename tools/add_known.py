#!/venv/bin/python
"""tools/add_known.py <replay.json> "<what fails, with the failing input>" : list a triaged, genuine defect as a known finding."""
import json, sys, os
HERE = os.path.dirname(os.path.dirname(os.path.abspath(__file__)))
d = json.load(open(sys.argv[1]))
kf = json.load(open(os.path.join(HERE, 'known_findings.json')))
e = {'property': d['property'], 'rule': d['rule'], 'construct': d['construct'], 'key': d['key'], 'status': 'known', 'what': sys.argv[2]}
if not any(x.get('status') == 'known' and all(x.get(k) == e[k] for k in ('property', 'rule', 'construct', 'key')) for x in kf['findings']):
    kf['findings'].insert(0, e)
json.dump(kf, open(os.path.join(HERE, 'known_findings.json'), 'w'), indent=1)
print('listed', e['property'], e['rule'], e['construct'])
